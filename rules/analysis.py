"""Interprocedural driver for the abstract interpreter (P3) over a call-graph closure.

Pass 1 (callees first): return summaries with TOP parameters (context-insensitive, sound).
Pass 2 (callers first): parameter intervals = join over every call site inside the closure (entry points and
        functions referenced as values keep TOP, plus the explicit entry assumptions), then the final pass that
        records obligations.  The closures analysed are recursion-free (checked by the caller through P1); members
        of a cycle would keep TOP parameters and no summary.
"""
from absint import Interp, ty_range
from callgraph import callgraph
from mir import body_of


class Result:
    def __init__(self):
        self.interps = {}      # fn id -> Interp (final)
        self.summaries = {}
        self.params = {}       # fn id -> {local: (lo, hi)}
        self.widest = {}       # fn id -> {local: caller id giving the widest interval}
        self.order = []
        self.cyclic = set()


_cache = {}


def field_invariants(fx, res, exclude=()):
    """(adt, field) -> interval joined over every construction site (aggregate) and every field store of that ADT
    inside the analysed closure.  Meaningful only for ADTs whose values are all produced inside the closure (the
    caller passes the ADTs that the API user can supply in `exclude`)."""
    from mir import place_key
    fi = {}
    dead = set()

    def add(adt, f, lo, hi):
        k = (adt, f)
        if k in dead:
            return
        if lo is None:
            dead.add(k)
            fi.pop(k, None)
            return
        old = fi.get(k)
        fi[k] = (lo, hi) if old is None else (min(old[0], lo), max(old[1], hi))
    for fid, it in res.interps.items():
        body = it.body
        if fx.fns[fid].get("derived") and fx.fns[fid]["name"] in ("clone", "clone_from"):
            continue    # derived Clone copies existing values of the same type field by field
        for b in body.rpo():
            st0 = it.in_states.get(b)
            if st0 is None:
                continue
            st = st0.copy()
            for i, s in enumerate(body.stmts(b)):
                if s["k"] == "assign":
                    rv = s["rv"]
                    if rv["k"] == "agg" and rv.get("ak") == "adt" and rv["adt"] in fx.adts and rv["adt"] not in exclude:
                        a = fx.adts[rv["adt"]]
                        if a["kind"] == "Struct":
                            for fname, o in zip(rv["fields"], rv["ops"]):
                                fty = next((fl["ty_s"] for fl in a["variants"][0]["fields"] if fl["name"] == fname), "")
                                if ty_range(fty):
                                    _, lo, hi, _ = it.read_op(st, o, (b, i))
                                    add(rv["adt"], fname, lo, hi)
                    pl = s["place"]
                    last = pl["p"][-1] if pl["p"] else None
                    if isinstance(last, dict) and "f" in last and last.get("adt") in fx.adts and last["adt"] not in exclude and ty_range(last["ty"]):
                        # value being stored
                        if rv["k"] == "use":
                            _, lo, hi, _ = it.read_op(st, rv["a"], (b, i))
                        else:
                            tmp = st.copy()
                            it.assign(tmp, b, i, s)
                            sid = tmp.cells.get(it.norm_target(tmp, place_key(pl)))
                            lo, hi = it.iv(tmp, sid) if sid is not None else (None, None)
                        add(last["adt"], last["f"], lo, hi)
                    it.assign(st, b, i, s)
            t = body.term(b)
            if t["k"] == "call":
                pl = t["dest"]
                last = pl["p"][-1] if pl["p"] else None
                if isinstance(last, dict) and "f" in last and last.get("adt") in fx.adts and ty_range(last["ty"]):
                    add(last["adt"], last["f"], None, None)
                # a field whose address is handed out mutably can be written by the callee
                for a in t["args"]:
                    apl = a.get("move") or a.get("copy")
                    if apl is None or not apl["ty"].startswith("&mut "):
                        continue
                    sid = st.cells.get(place_key(apl))
                    d = it.syms[sid].defn if sid is not None else None
                    if d and d[0] == "refto":
                        pass
    # fields borrowed mutably as scalars (`&mut x.field`) are not invariant
    for fid, it in res.interps.items():
        body = it.body
        for b in body.reach:
            for s in body.stmts(b):
                if s["k"] == "assign" and s["rv"]["k"] in ("ref", "rawptr") and s["rv"].get("mut"):
                    pl = s["rv"]["place"]
                    last = pl["p"][-1] if pl["p"] else None
                    if isinstance(last, dict) and "f" in last and last.get("adt") and ty_range(last["ty"]):
                        dead.add((last["adt"], last["f"]))
                        fi.pop((last["adt"], last["f"]), None)
    return fi


def constructed_adts(fx, res):
    """local ADTs with at least one construction site (aggregate) in the analysed closure"""
    out = set()
    for fid, it in res.interps.items():
        body = it.body
        for b in body.reach:
            for s in body.stmts(b):
                if s["k"] == "assign" and s["rv"]["k"] == "agg" and s["rv"].get("ak") == "adt":
                    out.add(s["rv"]["adt"])
    return out


def analyze(fx, entries, assumptions=None, profile="dev", hooks=None, tag=None, field_exclude=None):
    """two rounds: the first computes field invariants of crate-produced ADTs, the second uses them"""
    key = (id(fx), tuple(sorted(entries)), profile, tag, "fi")
    if key in _cache and hooks is None:
        return _cache[key]
    r1 = _analyze(fx, entries, assumptions, profile, None, tag, None)
    if field_exclude is None:
        return r1
    fi = field_invariants(fx, r1, field_exclude)
    r2 = _analyze(fx, entries, assumptions, profile, hooks, tag, fi)
    # the invariants must be inductive: recompute under themselves and keep only the stable ones
    fi2 = field_invariants(fx, r2, field_exclude)
    stable = {k: v for k, v in fi.items() if k in fi2 and fi2[k][0] >= v[0] and fi2[k][1] <= v[1]}
    if stable != fi:
        r2 = _analyze(fx, entries, assumptions, profile, hooks, tag, stable)
    r2.field_inv = stable
    r2.constructed = constructed_adts(fx, r2)
    r2.field_exclude = set(field_exclude)
    if hooks is None:
        _cache[key] = r2
    return r2


def _analyze(fx, entries, assumptions=None, profile="dev", hooks=None, tag=None, field_inv=None):
    """assumptions: {fn id: {param local: (lo, hi)}} for entry points"""
    key = (id(fx), tuple(sorted(entries)), profile, tag, id(field_inv) if field_inv else None)
    cg = callgraph(fx)
    clo = cg.closure(entries)
    res = Result()
    sccs = cg.sccs(clo)
    for comp in sccs:
        res.cyclic.update(comp)
    topo = cg.topo(clo)          # callees first
    res.order = topo
    # ---- pass 1: summaries (return values, may-write sets and post-states of `&mut` parameters)
    import modsets
    summaries = {"#mods": modsets.compute(fx, topo, res.cyclic), "#posts": {}, "#okposts": {}}
    for fid in topo:
        fn = fx.fns[fid]
        body = body_of(fn)
        if body is None or fid in res.cyclic:
            continue
        it = Interp(fx, body, param_iv=None, summaries=summaries, profile=profile, field_inv=field_inv)
        it.run(collect=True)
        if it.ret_cells:
            summaries[fid] = dict(it.ret_cells)
        if it.post_cells:
            summaries["#posts"][fid] = dict(it.post_cells)
        if it.ok_posts:
            # only what is tighter than the type's range or carries an upper-bound provenance is worth telling the caller
            from absint import ty_range as _tr
            keep = {k: v for k, v in it.ok_posts.items() if v[2] or (_tr(v[3] or "") and (v[0] > _tr(v[3])[0] or v[1] < _tr(v[3])[1]))}
            if keep:
                summaries["#okposts"][fid] = keep
    res.summaries = {k: v for k, v in summaries.items() if not k.startswith("#")}
    res.summaries_full = summaries
    # ---- pass 2: parameters, callers first
    entries = set(entries)
    value_used = _value_used(fx, cg, clo)
    params = {}
    entry_cells = {}
    closure_caps = {}
    seen_sites = {}
    for fid in reversed(topo):
        fn = fx.fns[fid]
        body = body_of(fn)
        if body is None:
            continue
        piv = None
        if fid in entries or fid in value_used or fid in res.cyclic or fn["kind"] == "Closure":
            piv = dict((assumptions or {}).get(fid, {}))
        else:
            piv = params.get(fid)
            if piv is None:
                piv = {}
            else:
                piv = {l: v for l, v in piv.items() if v is not None}
        if fn["kind"] == "Closure" and fid not in res.cyclic and closure_caps.get(fid):
            # integers captured by the closure: joined over its creation sites (a closure has one creation site per body;
            # a site inside a loop is joined with itself by the fixpoint of the parent)
            env_ref = body.locals[1]["ty"].startswith("&") if body.argc >= 1 else False
            ck = {}
            for (ci, byref), v in closure_caps[fid].items():
                if v is None:
                    continue
                key = (1,) + (("deref",) if env_ref else ()) + (".%d" % ci,) + (("deref",) if byref else ())
                ck[key] = v
            if ck:
                piv = dict(piv or {})
                piv["#cellkeys"] = ck
        if not (fid in entries or fid in value_used or fid in res.cyclic or fn["kind"] == "Closure") and entry_cells.get(fid):
            piv = dict(piv)
            piv["#cells"] = {k: v for k, v in entry_cells[fid].items() if v is not None}
        it = Interp(fx, body, param_iv=piv, summaries=summaries, profile=profile, hooks=hooks, field_inv=field_inv)
        it.run(collect=True)
        res.interps[fid] = it
        res.params[fid] = piv
        for cdef, caps in it.closure_caps:
            cur = closure_caps.get(cdef)
            if cur is None:
                closure_caps[cdef] = dict(caps)
            else:
                for k in list(cur):
                    if cur[k] is None:
                        continue
                    if k in caps:
                        cur[k] = (min(cur[k][0], caps[k][0]), max(cur[k][1], caps[k][1]), cur[k][2])
                    else:
                        cur[k] = None
        # integer cells below reference arguments: intersection over all call sites = the callee's entry state
        for b, callee, cc in it.call_cells:
            if callee not in clo:
                continue
            seen_sites[callee] = seen_sites.get(callee, 0) + 1
            cur = entry_cells.get(callee)
            if cur is None:
                entry_cells[callee] = dict(cc)
            else:
                for k in list(cur):
                    if cur[k] is None:
                        continue
                    if k in cc:
                        cur[k] = (min(cur[k][0], cc[k][0]), max(cur[k][1], cc[k][1]), cur[k][2])
                    else:
                        cur[k] = None
        # propagate argument intervals to local callees
        for b, callee, args in it.call_args:
            if callee not in clo:
                continue
            cb = body_of(fx.fns[callee])
            if cb is None:
                continue
            cur = params.setdefault(callee, {})
            for i, (lo, hi, prov) in enumerate(args):
                l = i + 1
                if l > cb.argc:
                    break
                ty = cb.locals[l]["ty"]
                rng = ty_range(ty)
                if rng is None:
                    continue
                if lo is None:
                    lo, hi = rng
                old = cur.get(l, "unset")
                if old == "unset":
                    cur[l] = (lo, hi)
                    res.widest.setdefault(callee, {})[l] = fid
                elif old is not None:
                    n = (min(old[0], lo), max(old[1], hi))
                    if n != old:
                        res.widest.setdefault(callee, {})[l] = fid
                    cur[l] = n
    res.field_inv = field_inv or {}
    return res


def _value_used(fx, cg, clo):
    """functions of the closure that are referenced as values (passed to adaptors): their parameters stay TOP"""
    out = set()
    for fid in clo:
        body = body_of(fx.fns[fid])
        if body is None:
            continue
        for b in range(body.n):
            for s in body.stmts(b):
                if s["k"] != "assign":
                    continue
                rv = s["rv"]
                ops = []
                if rv["k"] in ("use", "cast"):
                    ops = [rv["a"]]
                elif rv["k"] == "agg":
                    ops = rv["ops"]
                for o in ops:
                    c = o.get("const")
                    if c and c.get("fn") in fx.fns:
                        out.add(c["fn"])
            t = body.term(b)
            if t["k"] == "call":
                for a in t["args"]:
                    c = a.get("const")
                    if c and c.get("fn") in fx.fns:
                        out.add(c["fn"])
    return out
