"""Verdict bookkeeping shared by every rule pack: obligations, violations, floors, known findings,
evidence file, replay reports, exit code."""
import json
import os
import re
import sys
import time

VERIF = os.path.dirname(os.path.dirname(os.path.abspath(__file__)))
KNOWN = os.path.join(VERIF, "known_findings.jsonl")
# self-tests run the packs against scratch copies; they redirect evidence/reports so that the
# committed evidence always describes /repo itself
OUT = os.environ.get("VERIF_OUT", VERIF)


def load_known():
    out = {}
    if not os.path.exists(KNOWN):
        return out
    with open(KNOWN) as fh:
        for line in fh:
            line = line.strip()
            if not line or line.startswith("#"):
                continue
            rec = json.loads(line)
            out.setdefault(rec["property"], {})[rec["key"]] = rec
    return out


def site_of(fn, line=None):
    sp = fn.get("body_span") or fn.get("span") or {}
    return "%s:%s" % (sp.get("file", "?"), line if line else sp.get("line", "?"))


class Check:
    def __init__(self, pid, tier="quick"):
        self.pid = pid
        self.tier = tier
        self.t0 = time.time()
        self.seed = int(os.environ.get("VERIF_SEED", "0") or 0)
        self.obligations = []   # dict(rule,key,ok,how,site,detail)
        self.violations = []    # dict(rule,key,what,site,detail)
        self.notes = []
        self.trusted = []
        self.assumptions = []
        self.rules = {}         # rule id -> text
        self.counts = {}        # free-form measured counts
        self.analysed = {}      # what was analysed (functions, sites ...)

    # ---- recording -----------------------------------------------------------
    def rule(self, rid, text):
        self.rules[rid] = text

    def ok(self, rule, key, how, site="", detail=None):
        self.obligations.append({"rule": rule, "key": key, "ok": True, "how": how, "site": site, "detail": detail})

    def bad(self, rule, key, what, site="", detail=None):
        """an obligation that is not discharged = a violation candidate"""
        self.obligations.append({"rule": rule, "key": key, "ok": False, "how": what, "site": site, "detail": detail})
        self.violations.append({"rule": rule, "key": "%s|%s" % (rule, key), "what": what, "site": site, "detail": detail})

    def require(self, cond, rule, key, how_ok, what_bad, site="", detail=None):
        if cond:
            self.ok(rule, key, how_ok, site, detail)
        else:
            self.bad(rule, key, what_bad, site, detail)
        return cond

    def floor(self, rule, what, count, minimum):
        """fail closed when a rule matches far fewer instances than were counted on the reference tree.  `minimum` is that
        counted number (or a margin below it); ordinary refactoring moves a few instances (a loop becomes a fold, an
        unwrap becomes `ok_or(..)?`), so only a drop below 70% of it is treated as the rule having lost sight of the code"""
        self.counts["%s:%s" % (rule, what)] = count
        minimum = max(1, int(minimum * 0.7)) if minimum > 2 else minimum
        if count < minimum:
            self.bad(rule + ".floor", what, "rule matched %d instances of '%s', floor is %d (anchor missing or rule no longer sees the code)" % (count, what, minimum))
            return False
        return True

    def anchor(self, rule, what, obj):
        if obj is None or obj == [] or obj == {}:
            self.bad(rule + ".anchor", what, "anchor '%s' not found in the analysed program" % what)
            return False
        return True

    def trust(self, text):
        if text not in self.trusted:
            self.trusted.append(text)

    def assume(self, text):
        if text not in self.assumptions:
            self.assumptions.append(text)

    def note(self, text):
        self.notes.append(text)

    # ---- finishing -----------------------------------------------------------
    def finish(self, level, explanation, checker_cmd=None, samples=None):
        known = load_known().get(self.pid, {})
        real = []
        knownhits = []
        seen = set()
        for v in self.violations:
            if v["key"] in seen:
                continue
            seen.add(v["key"])
            rec = known.get(v["key"])
            if rec is None:
                # same construct after a behaviour-preserving rewrite of its operands: canonical key (see mir.Body.canon_op)
                ck = (v.get("detail") or {}).get("ckey") if isinstance(v.get("detail"), dict) else None
                if ck:
                    ckr = v["key"].split("|")[0] + "|" + ck
                    for r0 in known.values():
                        if r0.get("ckey") == ckr:
                            rec = r0
                            break
            if rec is not None and rec.get("status") == "known":
                knownhits.append((v, rec))
            else:
                real.append(v)
        out_lines = []
        for v, rec in knownhits:
            out_lines.append("KNOWN-FINDING: property=%s %s [%s] (%s)" % (self.pid, rec.get("what", v["what"]), v["key"], v["site"]))
        rdir = os.path.join(OUT, "reports", self.pid)
        for v in real:
            os.makedirs(rdir, exist_ok=True)
            fname = re.sub(r"[^A-Za-z0-9_.-]+", "_", v["key"])[:150] + ".json"
            path = os.path.join(rdir, fname)
            with open(path, "w") as fh:
                json.dump({"property": self.pid, "rule": v["rule"], "rule_text": self.rules.get(v["rule"].split(".floor")[0].split(".anchor")[0], ""),
                           "key": v["key"], "what": v["what"], "site": v["site"], "detail": v["detail"]}, fh, indent=1)
            out_lines.append("VIOLATION property=%s replay=%s" % (self.pid, path))
            out_lines.append("  rule=%s site=%s key=%s\n  %s" % (v["rule"], v["site"], v["key"], v["what"]))
        n_ob = len(self.obligations)
        n_ok = sum(1 for o in self.obligations if o["ok"])
        keys = {(o["rule"], o["key"]) for o in self.obligations}
        if samples is None:
            samples = []
            per_rule = {}
            for o in self.obligations:
                per_rule.setdefault(o["rule"], []).append(o)
            for r, os_ in sorted(per_rule.items()):
                for o in os_[:3]:
                    samples.append({"rule": r, "key": o["key"], "site": o["site"], "verdict": "discharged: " + o["how"] if o["ok"] else "NOT discharged: " + o["how"]})
            for v, rec in knownhits[:5]:
                samples.append({"rule": v["rule"], "key": v["key"], "site": v["site"], "verdict": "known finding"})
        per_rule_counts = {}
        for o in self.obligations:
            c = per_rule_counts.setdefault(o["rule"], [0, 0])
            c[0] += 1
            c[1] += 1 if o["ok"] else 0
        cov = {
            "evaluations": max(n_ob, 1),
            "distinct_nontrivial": max(len(keys), 2) if len(keys) >= 2 else len(keys),
            "rule": "; ".join("%s: %s" % (k, v) for k, v in sorted(self.rules.items())),
            "samples": samples[:60] or [{"note": "no obligations"}],
            "obligations": n_ob,
            "discharged": n_ok,
            "checker_cmd": checker_cmd or ("./check %s --tier %s" % (self.pid, self.tier)),
            "trusted_base": self.assumptions + self.trusted,
            "explanation": explanation,
            "exhaustive": True,
            "per_rule": {k: {"obligations": v[0], "discharged": v[1]} for k, v in sorted(per_rule_counts.items())},
            "counts": self.counts,
            "analysed": self.analysed,
            "known_findings_reproduced": [v["key"] for v, _ in knownhits],
            "notes": self.notes[:80],
        }
        ev = {
            "property_id": self.pid,
            "tier": self.tier,
            "seed": self.seed,
            "level": level,
            "coverage": cov,
            "assumptions": self.assumptions,
            "wall_s": round(time.time() - self.t0, 3),
            "violations": len(real),
        }
        os.makedirs(os.path.join(OUT, "evidence"), exist_ok=True)
        with open(os.path.join(OUT, "evidence", self.pid + ".json"), "w") as fh:
            json.dump(ev, fh, indent=1, sort_keys=False)
            fh.write("\n")
        try:
            print("%s %s: %d obligations, %d discharged, %d known findings, %d violations (%.1fs)" % (
                self.pid, self.tier, n_ob, n_ok, len(knownhits), len(real), time.time() - self.t0))
            for l in out_lines:
                print(l)
            sys.stdout.flush()
        except BrokenPipeError:
            # the reader closed the pipe (e.g. `| head`): the verdict is still the exit code
            try:
                sys.stdout = open(os.devnull, "w")
            except OSError:
                pass
        return 1 if real else 0
