"""Bit-routing evaluator over HIR expressions (used by C05-R3 and C16-R5).

Every result bit is 0, 1, ('v', input_name, k) = bit k of a named input, ('n', ...) = negation of such a
bit, or None (unknown / mixes several inputs).  Because it runs on the compiler's parse tree, operator
precedence is the compiler's, not the reader's."""
import hirq
from mir import INT_TYPES

WIDTH = {"u8": 8, "u16": 16, "u32": 32, "u64": 64, "usize": 64, "i8": 8, "i16": 16, "i32": 32, "i64": 64,
         "isize": 64, "bool": 1, "u128": 128, "i128": 128}


def width_of(ty):
    return WIDTH.get(ty)


class BV:
    __slots__ = ("w", "bits", "signed")

    def __init__(self, w, bits, signed=False):
        self.w = w
        self.bits = list(bits)[:w] + [0] * max(0, w - len(bits))
        self.signed = signed

    @staticmethod
    def const(v, w, signed=False):
        v &= (1 << w) - 1
        return BV(w, [(v >> i) & 1 for i in range(w)], signed)

    @staticmethod
    def input(name, w, signed=False):
        return BV(w, [("v", name, i) for i in range(w)], signed)

    @staticmethod
    def top(w, signed=False):
        return BV(w, [None] * w, signed)

    def is_const(self):
        return all(b in (0, 1) for b in self.bits)

    def value(self):
        return sum((b << i) for i, b in enumerate(self.bits))

    def resize(self, w, signed=None):
        sg = self.signed if signed is None else signed
        if w <= self.w:
            return BV(w, self.bits[:w], sg)
        ext = 0
        if self.signed:
            top = self.bits[-1]
            ext = top if top in (0, 1) or isinstance(top, tuple) else None
        return BV(w, self.bits + [ext] * (w - self.w), sg)

    def maybe_one(self, i):
        return self.bits[i] != 0

    def live_bits(self):
        """positions that are not constant 0"""
        return [i for i, b in enumerate(self.bits) if b != 0]

    def routing(self):
        """{position: (input, k)} for bits that are exactly one input bit"""
        return {i: (b[1], b[2]) for i, b in enumerate(self.bits) if isinstance(b, tuple) and b[0] == "v"}

    def __repr__(self):
        def r(b):
            if b in (0, 1):
                return str(b)
            if b is None:
                return "?"
            return "%s%s.%d" % ("~" if b[0] == "n" else "", b[1], b[2])
        return "BV%d[%s]" % (self.w, " ".join(r(b) for b in reversed(self.bits)))


def _and(a, b):
    if a == 0 or b == 0:
        return 0
    if a == 1:
        return b
    if b == 1:
        return a
    if a == b and a is not None:
        return a
    return None


def _or(a, b):
    if a == 1 or b == 1:
        return 1
    if a == 0:
        return b
    if b == 0:
        return a
    if a == b and a is not None:
        return a
    return None


def _xor(a, b):
    if a == 0:
        return b
    if b == 0:
        return a
    if a == 1 and b == 1:
        return 0
    if a in (0, 1) and isinstance(b, tuple):
        return _not(b) if a == 1 else b
    if b in (0, 1) and isinstance(a, tuple):
        return _not(a) if b == 1 else a
    return None


def _not(a):
    if a in (0, 1):
        return 1 - a
    if a is None:
        return None
    return ("n" if a[0] == "v" else "v", a[1], a[2])


class Evaluator:
    def __init__(self, fx=None, env=None, namer=None):
        self.fx = fx
        self.env = dict(env or {})     # local name -> BV
        self.namer = namer or (lambda n: hirq.path_str(n))
        self.counter = {}              # for ordinal inputs (e.g. successive .next() calls)
        self.notes = []

    def width(self, n):
        return width_of(n.get("ty", "")) or 64

    def signed(self, n):
        return n.get("ty", "").startswith("i")

    def fresh_input(self, base, n):
        k = self.counter.get(base, 0)
        self.counter[base] = k + 1
        return BV.input("%s#%d" % (base, k), self.width(n), self.signed(n))

    def ev(self, n):
        k = n.get("k")
        w = self.width(n)
        sg = self.signed(n)
        if k == "lit":
            v = n.get("val")
            if isinstance(v, bool):
                return BV.const(int(v), 1)
            if isinstance(v, (int,)) or (isinstance(v, str) and v.isdigit()):
                return BV.const(int(v), w, sg)
            return BV.top(w, sg)
        if k == "block" and not n.get("stmts") and "expr" in n:
            return self.ev(n["expr"])
        if k == "try":
            return self.ev(n["e"])
        if k == "mcall" and (n.get("trait") or "").endswith("ReadBytesExt"):
            return BV.input("wire", w, sg)
        if k == "path":
            if n.get("res") == "local":
                if n["name"] in self.env:
                    return self.env[n["name"]].resize(w, sg)
                return BV.input(n["name"], w, sg)
            if n.get("val") is not None:
                return BV.const(int(n["val"]), w, sg)
            return BV.top(w, sg)
        if k == "field":
            nm = self.namer(n)
            if nm is None:
                return BV.top(w, sg)
            if nm in self.env:
                return self.env[nm].resize(w, sg)
            return BV.input(nm, w, sg)
        if k == "un":
            if n["op"] == "Deref":
                return self.ev(n["e"]).resize(w, sg)
            if n["op"] == "Not":
                a = self.ev(n["e"])
                return BV(a.w, [_not(b) for b in a.bits], a.signed)
            return BV.top(w, sg)
        if k == "addrof":
            return self.ev(n["e"])
        if k == "cast":
            a = self.ev(n["e"])
            src_ty = n["e"].get("ty", "")
            if src_ty == "bool":
                return BV(w, [a.bits[0]] + [0] * (w - 1), sg)
            return a.resize(w, sg)
        if k == "call":
            fnp = n.get("fn") or ""
            # u8::from(bool) and other widening From conversions
            if fnp.endswith("From::from") and len(n["args"]) == 1:
                a = self.ev(n["args"][0])
                return a.resize(w, sg)
            return BV.top(w, sg)
        if k == "mcall":
            m = n["m"]
            if m in ("into",) and not n["args"]:
                return self.ev(n["recv"]).resize(w, sg)
            if m == "unwrap_or" and len(n["args"]) == 1:
                base = hirq.expr_str(n["recv"])
                return self.fresh_input(base, n)
            if m in ("clone",):
                return self.ev(n["recv"]).resize(w, sg)
            return BV.top(w, sg)
        if k == "if" and "else" in n:
            c = self.ev(n["cond"])
            a = self.ev(n["then"])
            b = self.ev(n["else"])
            if a.is_const() and b.is_const() and c.w == 1:
                cb = c.bits[0]
                out = []
                for x, y in zip(a.resize(w).bits, b.resize(w).bits):
                    if x == y:
                        out.append(x)
                    elif x == 1 and y == 0:
                        out.append(cb)
                    else:
                        out.append(_not(cb))
                return BV(w, out, sg)
            return BV.top(w, sg)
        if k == "bin":
            op = n["op"]
            a = self.ev(n["l"])
            b = self.ev(n["r"])
            if op in ("BitAnd", "BitOr", "BitXor"):
                ww = max(a.w, b.w)
                a, b = a.resize(ww), b.resize(ww)
                f = {"BitAnd": _and, "BitOr": _or, "BitXor": _xor}[op]
                return BV(ww, [f(x, y) for x, y in zip(a.bits, b.bits)], sg).resize(w, sg)
            if op in ("Shl", "Shr"):
                if not b.is_const():
                    return BV.top(w, sg)
                s = b.value()
                if op == "Shl":
                    return BV(a.w, ([0] * s + a.bits)[:a.w], a.signed)
                fill = 0
                if a.signed:
                    fill = a.bits[-1] if a.bits[-1] in (0, 1) else None
                return BV(a.w, (a.bits[s:] + [fill] * s)[:a.w], a.signed)
            if op == "Add":
                ww = max(a.w, b.w)
                a, b = a.resize(ww), b.resize(ww)
                if all(not (a.maybe_one(i) and b.maybe_one(i)) for i in range(ww)):
                    return BV(ww, [_or(x, y) for x, y in zip(a.bits, b.bits)], sg)
                if a.is_const() and b.is_const():
                    return BV.const(a.value() + b.value(), ww, sg)
                return BV.top(ww, sg)
            if op in ("Gt", "Ne", "Eq", "Ge", "Lt", "Le"):
                # single-live-bit tests
                if b.is_const():
                    live = a.live_bits()
                    bv = b.value()
                    if len(live) == 1:
                        bit = a.bits[live[0]]
                        if (op == "Gt" and bv == 0) or (op == "Ne" and bv == 0) or (op == "Ge" and bv == 1 and live[0] == 0) or (op == "Eq" and bv == (1 << live[0])):
                            return BV(1, [bit])
                        if (op == "Eq" and bv == 0) or (op == "Lt" and bv == 1 and live[0] == 0):
                            return BV(1, [_not(bit)])
                    if len(live) == 0:
                        val = 0
                        res = {"Gt": val > bv, "Ne": val != bv, "Eq": val == bv, "Ge": val >= bv, "Lt": val < bv, "Le": val <= bv}[op]
                        return BV.const(int(res), 1)
                return BV.top(1)
            if op in ("Sub", "Mul", "Div", "Rem"):
                if a.is_const() and b.is_const():
                    try:
                        v = {"Sub": a.value() - b.value(), "Mul": a.value() * b.value(),
                             "Div": a.value() // b.value(), "Rem": a.value() % b.value()}[op]
                        return BV.const(v, w, sg)
                    except ZeroDivisionError:
                        pass
                return BV.top(w, sg)
            if op in ("And", "Or"):
                f = _and if op == "And" else _or
                return BV(1, [f(a.bits[0], b.bits[0])])
        return BV.top(w, sg)
