"""Trace-partitioned abstract interpretation of one function: the transfer functions of absint.Interp are applied along
every acyclic CFG path (each block at most `revisit` times per path) WITHOUT joins, so that facts established by one
branch (which Option variant a table field has, which value range a parameter has) stay attached to the effects
(stores, pushes) that happen on the same path.  No solver: states are the interval/variant states of absint."""
from absint import Interp, place_key


class PathEvent:
    __slots__ = ("kind", "block", "index", "data", "state")

    def __init__(self, kind, block, index, data, state):
        self.kind, self.block, self.index, self.data, self.state = kind, block, index, data, state


def paths(fx, body, param_iv=None, summaries=None, field_inv=None, profile="dev", max_paths=4000, revisit=1):
    """yield (interp, blocks, events, final_state, exit_kind) per path; events = assign statements and call terminators
    with the state *before* them"""
    it = Interp(fx, body, param_iv=param_iv, summaries=summaries or {}, profile=profile, field_inv=field_inv)
    it.collect = False
    it._ret_skip = True
    out = []
    stack = [(0, it.initial(), [], [], {})]
    n = 0
    while stack:
        b, st, blocks, events, seen = stack.pop()
        if seen.get(b, 0) > revisit:
            continue
        seen = dict(seen)
        seen[b] = seen.get(b, 0) + 1
        blocks = blocks + [b]
        events = list(events)
        st = st.copy()
        for i, s in enumerate(body.stmts(b)):
            if s["k"] == "assign":
                events.append(PathEvent("assign", b, i, s, st.copy()))
                it.assign(st, b, i, s)
            elif s["k"] == "setdiscr":
                it.kill(st, place_key(s["place"]))
        t = body.term(b)
        if t["k"] == "return":
            n += 1
            out.append((it, blocks, events, st, "return"))
            if n >= max_paths:
                break
            continue
        if t["k"] == "call":
            events.append(PathEvent("call", b, None, t, st.copy()))
        succs = it.successors(st, b)
        if not succs and t["k"] not in ("return",):
            out.append((it, blocks, events, st, t["k"]))     # diverges / unwinds / infeasible
            continue
        for succ, s2 in succs:
            stack.append((succ, s2, blocks, events, seen))
    return out
