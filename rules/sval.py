"""Abstract evaluation of small, loop-free functions over the HIR into *value terms*, with local callees inlined.

Used for rules about conversions and header decoding that must hold for every input and must not depend on how the
source spells the computation (temporaries, helper functions, destructuring vs slicing, delegation between impls,
`x as u64` vs `u64::from(x)`): the rule inspects the resulting term, not the syntax.  No solver: integer values are
bit-vector routings (bits.BV) as long as only bit operations, casts and multiplications by powers of two are applied,
and symbolic arithmetic terms otherwise.

terms
  ("bv", BV)                         integer / bool with known bit routing
  ("arith", op, a, b)                integer arithmetic that is not a pure bit routing (a, b terms)
  ("cmp", op, a, b)                  comparison
  ("arr", [t...])                    array / tuple
  ("struct", def, {field: t})        struct literal (tuple structs use fields "0", "1", ...)
  ("variant", path, [t...])          enum variant / constructor call (Ok, Err, Some, None, unit variants)
  ("ite", cond, then, else)
  ("table", scrut, [(pat, t, arm)])  match on a value that is not known (pat = tables.pat_norm)
  ("lit", python value)              string / byte-string literal
  ("slice", name)                    unknown-length byte slice input (`s.as_bytes()`)
  ("lenis", slice, n)                condition: the slice has exactly n elements
  ("elem", slice, i)                 i-th byte of such a slice (as ("bv", input))
  ("conv", fid, t)                   result of a local function that is not inlined (table-like conversions)
  ("ext", name, [t...])              external call the evaluator does not interpret
  ("opaque", why)
"""
import re

import hirq
import tables
from bits import BV, Evaluator, width_of, _and, _or, _xor, _not

MAX_DEPTH = 6


class Ret(Exception):
    def __init__(self, val):
        self.val = val


def bv(t):
    return t[1] if isinstance(t, tuple) and t and t[0] == "bv" else None


def is_const(t):
    b = bv(t)
    return b is not None and b.is_const()


def const_val(t):
    return bv(t).value() if is_const(t) else None


class SVal:
    def __init__(self, fx, inline=None, keep=None):
        self.fx = fx
        self.inline = inline          # predicate(fid) -> inline this local callee? default: all non-match-table callees
        self.keep = keep or (lambda fid: False)
        self.reads = 0
        self.notes = []

    # ------------------------------------------------------------------ inputs
    def input_of_type(self, ty, name):
        """symbolic input of the given (rendered) type"""
        w = width_of(ty)
        if w:
            return ("bv", BV.input(name, w, ty.startswith("i")))
        m = re.match(r"\[u8; (\d+)\]$", ty)
        if m:
            return ("arr", [("bv", BV.input("%s[%d]" % (name, i), 8)) for i in range(int(m.group(1)))])
        m = re.match(r"\((.*)\)$", ty)
        if m and "," in m.group(1):
            parts = [p.strip() for p in m.group(1).split(",") if p.strip()]
            return ("arr", [self.input_of_type(p, "%s.%d" % (name, i)) for i, p in enumerate(parts)])
        t = ty.lstrip("&").replace("mut ", "").strip()
        if t != ty:
            return self.input_of_type(t, name)
        adt = self.fx.adts.get(t)
        if adt and adt["kind"] == "Struct":
            fields = {}
            for f in adt["variants"][0]["fields"]:
                fields[f["name"]] = self.input_of_type(render_ty(f["ty"]), "%s.%s" % (name, f["name"]))
            return ("struct", t, fields)
        if t in ("str", "[u8]"):
            return ("slice", name)
        return ("param", name, t)

    # ------------------------------------------------------------------ functions
    def call_fn(self, fid, args, depth):
        fn = self.fx.fns.get(fid)
        if fn is None or depth > MAX_DEPTH or not fn.get("hir"):
            return ("conv", fid, args[0] if len(args) == 1 else ("arr", list(args)))
        env = {}
        for p, a in zip(fn["hir"]["params"], args):
            self.bind_pat(p, a, env)
        root = hirq.body_root(fn)
        try:
            return self.ev(root, env, depth + 1)
        except Ret as r:
            return r.val

    def eval_fn(self, fn, arg_names=None):
        """evaluate a function on fresh symbolic inputs named after its parameters"""
        env = {}
        for i, p in enumerate(fn["hir"]["params"]):
            nm = (arg_names[i] if arg_names and i < len(arg_names) else None) or p.get("name") or "arg%d" % i
            self.bind_pat(p, self.input_of_type(p.get("ty", ""), nm), env)
        root = hirq.body_root(fn)
        try:
            return self.ev(root, env, 0)
        except Ret as r:
            return r.val

    # ------------------------------------------------------------------ patterns
    def bind_pat(self, pat, val, env):
        """bind; returns a condition term (None = irrefutable / always matches) or False when it cannot match"""
        k = pat.get("k")
        if k == "bind":
            env[pat.get("lid", pat.get("name"))] = val
            return None
        if k == "wild" or k is None:
            return None
        if k == "tuple":
            if val[0] == "arr" and len(val[1]) == len(pat["subs"]):
                for sp, v in zip(pat["subs"], val[1]):
                    self.bind_pat(sp, v, env)
                return None
        if k == "slice":
            n = len(pat["before"]) + len(pat.get("after") or [])
            if val[0] == "arr" and pat.get("mid") is None and len(val[1]) == n:
                for sp, v in zip(pat["before"], val[1]):
                    self.bind_pat(sp, v, env)
                return None
            if val[0] == "slice" and pat.get("mid") is None:
                for i, sp in enumerate(pat["before"]):
                    self.bind_pat(sp, ("bv", BV.input("%s[%d]" % (val[1], i), 8)), env)
                return ("lenis", val, n)
        if k == "tuplestruct":
            name = (pat.get("ctor_of") or pat.get("def") or "").split("::")[-1]
            if val[0] == "variant":
                if val[1].split("::")[-1] != name:
                    return False
                for sp, v in zip(pat["subs"], val[2]):
                    self.bind_pat(sp, v, env)
                return None
        if k == "struct" and val[0] == "struct":
            for f in pat["fields"]:
                self.bind_pat(f["pat"], val[2].get(f["name"], ("opaque", "missing field")), env)
            return None
        if k == "path" and val[0] == "variant":
            name = (pat.get("ctor_of") or pat.get("def") or "").split("::")[-1]
            return None if val[1].split("::")[-1] == name else False
        for nm, lid in hirq.pat_bindings(pat):
            env[lid] = ("opaque", "pattern %s" % k)
        return ("opaque", "pattern")

    # ------------------------------------------------------------------ expressions
    def ev(self, n, env, depth=0):
        k = n.get("k")
        ty = n.get("ty", "")
        w = width_of(ty)
        if k == "block":
            env = dict(env)
            for s in n.get("stmts", []):
                self.stmt(s, env, depth)
            if "expr" in n:
                return self.ev(n["expr"], env, depth)
            return ("arr", [])
        if k == "lit":
            v = n.get("val")
            if isinstance(v, bool):
                return ("bv", BV.const(int(v), 1))
            if isinstance(v, int) and w:
                return ("bv", BV.const(v, w, ty.startswith("i")))
            if isinstance(v, str) and v.isdigit() and w:
                return ("bv", BV.const(int(v), w, ty.startswith("i")))
            return ("lit", v)
        if k == "path":
            if n.get("res") == "local":
                key = n.get("lid", n.get("name"))
                if key in env:
                    return env[key]
                if n.get("name") in env:
                    return env[n["name"]]
                return ("opaque", "unbound local %s" % n.get("name"))
            if n.get("val") is not None and w and isinstance(n["val"], int):
                return ("bv", BV.const(int(n["val"]), w, ty.startswith("i")))
            if n.get("val") is not None:
                return ("lit", n["val"])
            if n.get("ctor_of") or n.get("dk", "").startswith("Ctor"):
                return ("variant", n.get("ctor_of") or n.get("def"), [])
            try:
                c = tables.eval_const(self.fx, n)
                if isinstance(c, int) and w:
                    return ("bv", BV.const(c, w, ty.startswith("i")))
                return ("lit", c)
            except Exception:
                return ("opaque", "path %s" % n.get("def"))
        if k in ("addrof",) or (k == "un" and n.get("op") == "Deref"):
            return self.ev(n["e"], env, depth)
        if k == "try":
            v = self.ev(n["e"], env, depth)
            return self.unwrap_try(v)
        if k == "cast":
            v = self.ev(n["e"], env, depth)
            b = bv(v)
            if b is not None and w:
                src = n["e"].get("ty", "")
                if src == "bool":
                    return ("bv", BV(w, [b.bits[0]] + [0] * (w - 1), ty.startswith("i")))
                return ("bv", b.resize(w, ty.startswith("i")))
            if v[0] in ("arith", "table", "ite") and w:
                return ("ext", "cast:" + ty, [v])
            return v
        if k == "field":
            v = self.ev(n["e"], env, depth)
            return self.project(v, n["name"])
        if k == "tup":
            return ("arr", [self.ev(x, env, depth) for x in n["es"]])
        if k == "array":
            return ("arr", [self.ev(x, env, depth) for x in n["es"]])
        if k == "repeat":
            cnt = None
            m = re.match(r"\[.*; (\d+)\]$", ty)
            if m:
                cnt = int(m.group(1))
            v = self.ev(n["e"], env, depth)
            return ("arr", [v] * cnt) if cnt is not None and cnt <= 64 else ("opaque", "repeat")
        if k == "struct":
            fields = {}
            for f in n["fields"]:
                fields[f["name"]] = self.ev(f["e"], env, depth)
            d = n.get("def") or ty
            if (n.get("dk") or "").startswith("Variant") or "::" in d and d.rsplit("::", 1)[0] in self.fx.adts and self.fx.adts[d.rsplit("::", 1)[0]]["kind"] == "Enum":
                return ("variant", d, [fields[x] for x in sorted(fields)])
            return ("struct", ty if ty in self.fx.adts else d, fields)
        if k == "index":
            base = self.ev(n["e"], env, depth)
            i = n["i"]
            if base[0] == "arr":
                if i.get("k") == "struct" and (i.get("def") or "").endswith("range::Range"):
                    f = {x["name"]: self.ev(x["e"], env, depth) for x in i["fields"]}
                    lo, hi = const_val(f.get("start")), const_val(f.get("end"))
                    if lo is not None and hi is not None and 0 <= lo <= hi <= len(base[1]):
                        return ("arr", base[1][lo:hi])
                iv = self.ev(i, env, depth)
                c = const_val(iv)
                if c is not None and 0 <= c < len(base[1]):
                    return base[1][c]
            return ("opaque", "index")
        if k == "un":
            v = self.ev(n["e"], env, depth)
            b = bv(v)
            if n["op"] == "Not" and b is not None:
                return ("bv", BV(b.w, [_not(x) for x in b.bits], b.signed))
            return ("ext", "un:" + n["op"], [v])
        if k == "bin":
            return self.binop(n, env, depth)
        if k == "if":
            return self.do_if(n, env, depth)
        if k == "match":
            return self.do_match(n, env, depth)
        if k == "ret":
            raise Ret(self.ev(n["e"], env, depth) if isinstance(n.get("e"), dict) else ("arr", []))
        if k == "call":
            return self.do_call(n, env, depth)
        if k == "mcall":
            return self.do_mcall(n, env, depth)
        if k == "closure":
            return ("opaque", "closure")
        return ("opaque", "expr kind %s" % k)

    def stmt(self, s, env, depth):
        k = s.get("k")
        if k == "let":
            if "init" in s:
                v = self.ev(s["init"], env, depth)
                c = self.bind_pat(s["pat"], v, env)
                if c is not None and c is not False and "else" in s:
                    self.notes.append("let-else with a refutable pattern")
            else:
                for nm, lid in hirq.pat_bindings(s["pat"]):
                    env[lid] = ("opaque", "uninitialised")
            return
        if k in ("semi", "expr"):
            e = s["e"]
            if e.get("k") == "assign" and e["l"].get("k") == "path" and e["l"].get("res") == "local":
                env[e["l"].get("lid", e["l"].get("name"))] = self.ev(e["r"], env, depth)
                return
            if e.get("k") == "if" and "else" not in e:
                # `if cond { return X; }` : record as a guarded early return by raising only when the condition is known
                c = self.ev(e["cond"], env, depth) if e["cond"].get("k") != "letx" else None
                try:
                    self.ev(e["then"], dict(env), depth)
                except Ret as r:
                    if c is not None and is_const(c):
                        if const_val(c):
                            raise
                        return
                    env["$guards"] = env.get("$guards", []) + [(c, r.val)]
                return
            self.ev(e, env, depth)
            return

    def unwrap_try(self, v):
        if v[0] == "variant":
            nm = v[1].split("::")[-1]
            if nm in ("Ok", "Some") and v[2]:
                return v[2][0]
            if nm in ("Err", "None"):
                raise Ret(v)
        if v[0] == "ite":
            # propagate: the error branch leaves the function; continue with the success payload
            a, b = v[2], v[3]
            def ok(x):
                return x[0] == "variant" and x[1].split("::")[-1] in ("Ok", "Some") and x[2]
            if ok(a) and not ok(b):
                return ("guarded", v[1], a[2][0], b)
            if ok(b) and not ok(a):
                return ("guarded", ("not", v[1]), b[2][0], a)
        if v[0] == "ext" and v[1].startswith("io:"):
            return ("arr", [])
        return ("ext", "try", [v])

    def project(self, v, name):
        if v[0] == "struct":
            return v[2].get(name, ("opaque", "no field %s" % name))
        if v[0] == "arr" and name.isdigit() and int(name) < len(v[1]):
            return v[1][int(name)]
        if v[0] == "guarded":
            return self.project(v[2], name)
        return ("ext", "field:" + name, [v])

    def binop(self, n, env, depth):
        op = n["op"]
        a = self.ev(n["l"], env, depth)
        b = self.ev(n["r"], env, depth)
        ty = n.get("ty", "")
        w = width_of(ty) or 64
        sg = ty.startswith("i")
        x, y = bv(a), bv(b)
        if x is not None and y is not None:
            if op in ("BitAnd", "BitOr", "BitXor"):
                ww = max(x.w, y.w)
                x2, y2 = x.resize(ww), y.resize(ww)
                f = {"BitAnd": _and, "BitOr": _or, "BitXor": _xor}[op]
                return ("bv", BV(ww, [f(p, q) for p, q in zip(x2.bits, y2.bits)], sg).resize(w, sg))
            if op in ("Shl", "Shr") and y.is_const():
                s = y.value()
                if op == "Shl":
                    return ("bv", BV(x.w, ([0] * s + x.bits)[:x.w], x.signed))
                fill = 0
                if x.signed:
                    fill = x.bits[-1] if x.bits[-1] in (0, 1) else None
                return ("bv", BV(x.w, (x.bits[s:] + [fill] * s)[:x.w], x.signed))
            if op == "Mul":
                for p, q in ((x, y), (y, x)):
                    if q.is_const() and q.value() > 0 and q.value() & (q.value() - 1) == 0:
                        s = q.value().bit_length() - 1
                        # product of a value whose top s bits are zero with 2^s: a pure shift
                        if all(bit == 0 for bit in p.bits[p.w - s:]) or True:
                            return ("bv", BV(p.w, ([0] * s + p.bits)[:p.w], p.signed)) if all(bit == 0 for bit in p.bits[p.w - s:]) else ("arith", "Mul", a, b)
            if op == "Add":
                ww = max(x.w, y.w)
                x2, y2 = x.resize(ww), y.resize(ww)
                if all(not (x2.maybe_one(i) and y2.maybe_one(i)) for i in range(ww)):
                    return ("bv", BV(ww, [_or(p, q) for p, q in zip(x2.bits, y2.bits)], sg))
            if x.is_const() and y.is_const():
                try:
                    if op in ("Add", "Sub", "Mul", "Div", "Rem"):
                        v = {"Add": x.value() + y.value(), "Sub": x.value() - y.value(), "Mul": x.value() * y.value(),
                             "Div": x.value() // y.value(), "Rem": x.value() % y.value()}[op]
                        return ("bv", BV.const(v, w, sg))
                    if op in ("Eq", "Ne", "Lt", "Le", "Gt", "Ge"):
                        r = {"Eq": x.value() == y.value(), "Ne": x.value() != y.value(), "Lt": x.value() < y.value(), "Le": x.value() <= y.value(),
                             "Gt": x.value() > y.value(), "Ge": x.value() >= y.value()}[op]
                        return ("bv", BV.const(int(r), 1))
                except ZeroDivisionError:
                    pass
        if op in ("Eq", "Ne", "Lt", "Le", "Gt", "Ge"):
            # single-bit tests stay bit-level
            if x is not None and y is not None and y.is_const():
                live = x.live_bits()
                yv = y.value()
                if len(live) == 1:
                    bit = x.bits[live[0]]
                    if (op in ("Gt", "Ne") and yv == 0) or (op == "Eq" and yv == (1 << live[0])) or (op == "Ge" and yv == 1 and live[0] == 0):
                        return ("bv", BV(1, [bit]))
                    if (op == "Eq" and yv == 0) or (op == "Lt" and yv == 1 and live[0] == 0):
                        return ("bv", BV(1, [_not(bit)]))
            return ("cmp", op, a, b)
        if op in ("And", "Or"):
            if x is not None and y is not None:
                f = _and if op == "And" else _or
                return ("bv", BV(1, [f(x.bits[0], y.bits[0])]))
            return ("ext", op, [a, b])
        return ("arith", op, a, b)

    def do_if(self, n, env, depth):
        c = n["cond"]
        if c.get("k") == "letx":
            v = self.ev(c["init"], env, depth)
            env2 = dict(env)
            cond = self.bind_pat(c["pat"], v, env2)
            if cond is None:
                return self.ev(n["then"], env2, depth)
            if cond is False:
                return self.ev(n["else"], env, depth) if "else" in n else ("arr", [])
            t = self.branch(n["then"], env2, depth)
            e = self.branch(n["else"], env, depth) if "else" in n else ("arr", [])
            return ("ite", cond, t, e)
        cv = self.ev(c, env, depth)
        if is_const(cv):
            if const_val(cv):
                return self.ev(n["then"], env, depth)
            return self.ev(n["else"], env, depth) if "else" in n else ("arr", [])
        t = self.branch(n["then"], env, depth)
        e = self.branch(n["else"], env, depth) if "else" in n else ("arr", [])
        return ("ite", cv, t, e)

    def branch(self, n, env, depth):
        try:
            return self.ev(n, dict(env), depth)
        except Ret as r:
            return ("return", r.val)

    def do_match(self, n, env, depth):
        sv = self.ev(n["scrut"], env, depth)
        return self.match_value(sv, n, env, depth)

    def match_value(self, sv, n, env, depth):
        if sv[0] == "ite":
            return ("ite", sv[1], self.match_value(sv[2], n, env, depth), self.match_value(sv[3], n, env, depth))
        if sv[0] == "return":
            return sv
        if sv[0] == "variant" or is_const(sv) or (sv[0] == "arr" and all(is_const(x) for x in sv[1]) and sv[1]):
            for arm in n["arms"]:
                env2 = dict(env)
                c = self.pat_matches(arm["pat"], sv, env2)
                if c is True:
                    return self.branch(arm["body"], env2, depth)
            return ("opaque", "no arm matches")
        if sv[0] == "slice" and n["arms"] and n["arms"][0]["pat"].get("k") == "slice" and n["arms"][0]["pat"].get("mid") is None and not n["arms"][0].get("guard"):
            # `match *bytes { [a, b, c, d] => X, rest.. }`: the first arm is taken exactly when the slice has that many elements
            env2 = dict(env)
            c = self.bind_pat(n["arms"][0]["pat"], sv, env2)
            if c is not None and c is not False and c[0] == "lenis":
                first = self.branch(n["arms"][0]["body"], env2, depth)
                rest = dict(n)
                rest["arms"] = n["arms"][1:]
                if len(rest["arms"]) == 1 and rest["arms"][0]["pat"].get("k") in ("wild", "bind"):
                    env3 = dict(env)
                    if rest["arms"][0]["pat"].get("k") == "bind":
                        self.bind_pat(rest["arms"][0]["pat"], sv, env3)
                    other = self.branch(rest["arms"][0]["body"], env3, depth)
                else:
                    other = self.match_value(sv, rest, env, depth) if rest["arms"] else ("opaque", "no arm matches")
                return ("ite", c, first, other)
        arms = []
        for arm in n["arms"]:
            env2 = dict(env)
            self.bind_pat(arm["pat"], sv, env2) if arm["pat"].get("k") == "bind" else None
            body = self.branch(arm["body"], env2, depth)
            if isinstance(arm.get("guard"), dict):
                body = ("guardarm", self.ev(arm["guard"], env2, depth), body)
            arms.append((tables.pat_norm(self.fx, arm["pat"]), body, arm))
        return ("table", sv, arms)

    def pat_matches(self, pat, sv, env):
        k = pat.get("k")
        if k in ("wild",):
            return True
        if k == "bind":
            env[pat.get("lid", pat.get("name"))] = sv
            return True
        if sv[0] == "variant":
            name = (pat.get("ctor_of") or pat.get("def") or "").split("::")[-1]
            if k in ("tuplestruct", "path", "struct"):
                if sv[1].split("::")[-1] != name:
                    return False
                if k == "tuplestruct":
                    for sp, v in zip(pat["subs"], sv[2]):
                        if self.pat_matches(sp, v, env) is not True:
                            return None
                return True
            return None
        if is_const(sv):
            p = tables.pat_norm(self.fx, pat)
            v = const_val(sv)
            if p[0] == "int":
                return p[1] == v
            if p[0] == "range":
                return (p[1] is None or p[1] <= v) and (p[2] is None or v <= p[2])
            return None
        if sv[0] == "arr" and k == "tuple" and len(pat["subs"]) == len(sv[1]):
            res = True
            for sp, v in zip(pat["subs"], sv[1]):
                r = self.pat_matches(sp, v, env)
                if r is False:
                    return False
                if r is None:
                    res = None
            return res
        return None

    # ------------------------------------------------------------------ calls
    def do_call(self, n, env, depth):
        fn = n.get("fn") or ""
        args = [self.ev(a, env, depth) for a in n["args"]]
        last = fn.split("::")[-1]
        if n.get("ctor_of") or (n.get("dk") or "").startswith("Ctor"):
            path = n.get("ctor_of") or fn
            d = path.rsplit("::", 1)[0]
            if d in self.fx.adts and self.fx.adts[d]["kind"] == "Struct" or path in self.fx.adts:
                return ("struct", path if path in self.fx.adts else d, {str(i): a for i, a in enumerate(args)})
            return ("variant", path, args)
        if last == "from_be_bytes" and len(args) == 1 and args[0][0] == "arr" and all(bv(x) is not None for x in args[0][1]):
            bits = []
            for x in reversed(args[0][1]):
                bits.extend(bv(x).bits)
            return ("bv", BV(len(bits), bits))
        if last in ("from_le_bytes", "from_ne_bytes") and len(args) == 1 and args[0][0] == "arr" and all(bv(x) is not None for x in args[0][1]):
            bits = []
            for x in args[0][1]:
                bits.extend(bv(x).bits)
            return ("bv", BV(len(bits), bits))
        fid = tables.resolve_conv(self.fx, n) or fn
        if fid in self.fx.fns:
            return self.local_call(fid, args, depth, n.get("ty", ""))
        if fn.endswith(("From::from", "Into::into")) and len(args) == 1:
            return self.widen(args[0], n.get("ty", ""))
        if fn.endswith("TryFrom::try_from") and len(args) == 1:
            return self.try_from(args[0], n.get("ty", ""))
        return ("ext", ext_name(n, short_path(fn)), args)

    def local_call(self, fid, args, depth, ty=""):
        if self.keep(fid):
            arg = args[0] if len(args) == 1 else ("arr", list(args))
            w = width_of(ty)
            if w:
                # an integer produced by a conversion that is checked on its own: a fresh named input
                return ("bv", BV.input("conv:%s(%s)" % (fid, show(arg)), w, ty.startswith("i")))
            return ("conv", fid, arg)
        return self.call_fn(fid, args, depth)

    def widen(self, v, ty):
        b = bv(v)
        w = width_of(ty)
        if b is not None and w:
            return ("bv", b.resize(w, ty.startswith("i")))
        return v

    def try_from(self, v, ty):
        m = re.search(r"Result<\[u8; (\d+)\]", ty)
        if m and v[0] == "slice":
            k = int(m.group(1))
            return ("ite", ("lenis", v, k), ("variant", "core::result::Result::Ok", [("arr", [("bv", BV.input("%s[%d]" % (v[1], i), 8)) for i in range(k)])]),
                    ("variant", "core::result::Result::Err", [("opaque", "TryFromSliceError")]))
        if m and v[0] == "arr" and len(v[1]) == int(m.group(1)):
            return ("variant", "core::result::Result::Ok", [v])
        return ("ext", "try_from", [v])

    def do_mcall(self, n, env, depth):
        m = n["m"]
        recv = self.ev(n["recv"], env, depth)
        args = [self.ev(a, env, depth) for a in n["args"]]
        ty = n.get("ty", "")
        fid = tables.resolve_conv(self.fx, n) or n.get("fn")
        if fid in self.fx.fns:
            return self.local_call(fid, [recv] + args, depth, ty)
        b = bv(recv)
        if m == "to_be_bytes" and b is not None and b.w % 8 == 0:
            return ("arr", [("bv", BV(8, b.bits[i * 8:(i + 1) * 8])) for i in reversed(range(b.w // 8))])
        if m in ("to_le_bytes", "to_ne_bytes") and b is not None and b.w % 8 == 0:
            return ("arr", [("bv", BV(8, b.bits[i * 8:(i + 1) * 8])) for i in range(b.w // 8)])
        if m in ("into", "clone", "to_owned", "as_ref", "borrow", "copied", "cloned") and not args:
            return self.widen(recv, ty) if m == "into" else recv
        if m == "try_into" and not args:
            r = self.try_from(recv, ty)
            return r
        if m in ("unwrap", "expect"):
            if recv[0] == "variant" and recv[1].split("::")[-1] in ("Ok", "Some") and recv[2]:
                return recv[2][0]
            if recv[0] == "ite":
                return ("guarded", recv[1], self.unwrap_variant(recv[2]), recv[3])
            return ("ext", m, [recv])
        if m == "as_bytes" and not args:
            return recv if recv[0] == "slice" else ("ext", m, [recv])
        if m == "read_exact" and len(args) == 1:
            # fills the buffer with the next bytes of the stream: fresh inputs
            tgt = hirq.strip_wrappers(n["args"][0])
            cur = args[0]
            if tgt.get("k") == "path" and tgt.get("res") == "local" and cur[0] == "arr":
                self.reads += 1
                env[tgt.get("lid", tgt.get("name"))] = ("arr", [("bv", BV.input("wire#%d[%d]" % (self.reads, i), 8)) for i in range(len(cur[1]))])
                return ("ext", "io:read_exact", [("lit", len(cur[1]))])
        if (n.get("trait") or "").endswith("ReadBytesExt"):
            self.reads += 1
            w = width_of(result_inner(ty)) or 64
            return ("variant", "core::result::Result::Ok", [("bv", BV.input("wire#%d" % self.reads, w))])
        if m in ("max", "min") and len(args) == 1:
            return ("ext", m, sorted([recv, args[0]], key=repr))
        return ("ext", ext_name(n, m), [recv] + args)

    def unwrap_variant(self, v):
        if v[0] == "variant" and v[2]:
            return v[2][0]
        return ("ext", "unwrap", [v])


def ext_name(n, default):
    """name of an uninterpreted call: keeps an explicit turbofish / the implementing type (`parse::<u32>`,
    `<BigEndian as ByteOrder>::read_u32`) because they select the behaviour"""
    full = n.get("fn_full") or ""
    if full.startswith("<") and " as " in full.split(">::")[0]:
        head, _, tail = full.partition(">::")
        a, _, b = head[1:].partition(" as ")
        return "<%s as %s>::%s" % (a.split("::")[-1], b.split("::")[-1].split("<")[0], tail)
    if "::<" in full.rsplit("::", 2)[-1] or full.endswith(">") and "::<" in full:
        i = full.rfind("::<")
        j = full.rfind("::", 0, i)
        return full[j + 2:]
    return default


def result_inner(ty):
    m = re.match(r"core::result::Result<(.*), [^,]+>$", ty)
    return m.group(1) if m else ty


def short_path(p):
    return "::".join(p.split("::")[-2:])


def render_ty(t):
    if "p" in t:
        return t["p"]
    if "adt" in t:
        return t["adt"]
    if "array" in t:
        return "[%s; %s]" % (render_ty(t["array"]), t.get("len", "?"))
    if "tuple" in t:
        return "(%s)" % ", ".join(render_ty(x) for x in t["tuple"])
    if "ref" in t:
        return "&" + render_ty(t["ref"])
    return "?"


def show(t, depth=0):
    """compact rendering of a term for messages"""
    if not isinstance(t, tuple) or not t:
        return repr(t)
    k = t[0]
    if k == "bv":
        b = t[1]
        if b.is_const():
            return str(b.value())
        r = b.routing()
        names = {v[0] for v in r.values()}
        if len(r) == b.w and len(names) == 1 and all(r[i][1] == i for i in range(b.w)):
            return names.pop()
        return repr(b)
    if depth > 4:
        return k + "(..)"
    if k in ("arith", "cmp"):
        return "(%s %s %s)" % (show(t[2], depth + 1), t[1], show(t[3], depth + 1))
    if k == "arr":
        return "[%s]" % ", ".join(show(x, depth + 1) for x in t[1])
    if k == "struct":
        return "%s{%s}" % (t[1].split("::")[-1], ", ".join("%s: %s" % (f, show(v, depth + 1)) for f, v in sorted(t[2].items())))
    if k == "variant":
        return "%s(%s)" % (t[1].split("::")[-1], ", ".join(show(x, depth + 1) for x in t[2]))
    if k == "ite":
        return "if %s {%s} else {%s}" % (show(t[1], depth + 1), show(t[2], depth + 1), show(t[3], depth + 1))
    if k == "table":
        return "match %s {%d arms}" % (show(t[1], depth + 1), len(t[2]))
    if k == "conv":
        return "%s(%s)" % (t[1].split("::")[-1] if isinstance(t[1], str) else t[1], show(t[2], depth + 1))
    if k in ("ext",):
        return "%s(%s)" % (t[1], ", ".join(show(x, depth + 1) for x in t[2]))
    if k == "guarded":
        return "%s [unless %s]" % (show(t[2], depth + 1), show(t[1], depth + 1))
    if k == "return":
        return "return %s" % show(t[1], depth + 1)
    return "%s(%s)" % (k, ", ".join(show(x, depth + 1) if isinstance(x, tuple) else repr(x) for x in t[1:]))
