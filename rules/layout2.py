"""P5 (continued): evaluation of layout trees under an assignment of condition atoms, role assignment for atoms,
symbolic size evaluation of box_size()/get_size() bodies, and comparison of layouts."""
import itertools
import re

import hirq
import layout as LY
import tables
from facts import short


# ------------------------------------------------------------------------------------------------
# linear forms: {term: coeff}; term None = constant

def _dmin(a, b):
    out = dict(a)
    for k, v in b.items():
        if k not in out or out[k] > v:
            out[k] = v
    return out


def lin_const(c):
    return {None: c} if c else {}


def lin_add(a, b, k=1):
    out = dict(a)
    for t, c in b.items():
        out[t] = out.get(t, 0) + k * c
        if out[t] == 0:
            del out[t]
    return out


def lin_scale(a, k):
    return {t: c * k for t, c in a.items() if c * k != 0}


def lin_key(a):
    return tuple(sorted(((repr(t), c) for t, c in a.items())))


def lin_str(a):
    if not a:
        return "0"
    parts = []
    for t, c in sorted(a.items(), key=lambda x: repr(x[0])):
        if t is None:
            parts.append(str(c))
        else:
            parts.append(("%d*" % c if c != 1 else "") + term_str(t))
    return " + ".join(parts)


def term_str(t):
    if isinstance(t, tuple) and t[0] == "sum":
        return "sum(%s: %s)" % (t[1], lin_str(dict(t[2])))
    return str(t)


# ------------------------------------------------------------------------------------------------
# condition atoms

def cond_atoms(fx, L, acc=None, subst=None):
    """all condition atoms occurring in a layout (strings), '?'-atoms included"""
    if acc is None:
        acc = []
    for x in LY.walk(L):
        if x["n"] == "alt":
            c = x["cond"]
            if c.get("k") == "letelse":
                continue
            if (only_exit(x["then"]) and not has_effects(x["else"])) or (only_exit(x["else"]) and not has_effects(x["then"])):
                continue      # validity check / loop exit: does not shape the layout
            for a in split_conj(fx, c):
                acc.append(a[0])
        elif x["n"] == "iflet":
            a = iflet_atom(x)
            if a:
                acc.append(a)
        elif x["n"] == "match":
            sc = LY.norm_expr(x["scrut"])
            for arm in x["arms"]:
                p = tables.pat_norm(fx, arm["pat"])
                if p[0] == "int":
                    acc.append("%s==%s" % (sc, p[1]))
                elif p[0] == "variant" and p[1] and p[1].rsplit("::", 1)[0] in fx.adts and sc in ("self", "*self"):
                    acc.append("self@%s" % p[1].rsplit("::", 1)[1])
    return acc


def split_conj(fx, c):
    """a condition as a list of (atom, polarity) for `a && b`; single element otherwise"""
    if c.get("k") == "bin" and c.get("op") == "And":
        return split_conj(fx, c["l"]) + split_conj(fx, c["r"])
    return [LY.norm_cond(fx, c)]


def iflet_atom(x):
    p = x["pat"]
    if p.get("k") == "tuplestruct" and (p.get("def") or "").endswith("Option::Some"):
        return "some(%s)" % LY.norm_expr(x["scrut"])
    return None


def eval_cond(fx, c, A):
    """True / False / None(unknown) under assignment A"""
    if c.get("k") == "bin" and c.get("op") in ("And", "Or"):
        l = eval_cond(fx, c["l"], A)
        r = eval_cond(fx, c["r"], A)
        if c["op"] == "And":
            if l is False or r is False:
                return False
            if l is True and r is True:
                return True
            return None
        if l is True or r is True:
            return True
        if l is False and r is False:
            return False
        return None
    a, pol = LY.norm_cond(fx, c)
    if a in A:
        return A[a] if pol else not A[a]
    # X==c with another X==c' known true
    m = re.match(r"(.+)==(-?\d+)$", a)
    if m:
        for k, v in A.items():
            m2 = re.match(r"(.+)==(-?\d+)$", k)
            if m2 and m2.group(1) == m.group(1) and v and m2.group(2) != m.group(2):
                return (False if pol else True)
    return None


# ------------------------------------------------------------------------------------------------
# roles

FIELD_RE = re.compile(r"[A-Za-z_][A-Za-z0-9_]*")


def leaf(s):
    return s.split(".")[-1]


def write_role(fx, val, loopvars):
    """role of a written value: const:<v> | field leaf | len(<leaf>) | expr{leaf,...}"""
    c = LY.const_of(fx, val)
    if c is not None and not isinstance(c, (tuple, str)):
        return "const:%s" % c
    s = LY.norm_expr(val)
    m = re.match(r"^([A-Za-z_][A-Za-z0-9_.]*)\.len\(\)$", s)
    if m:
        return "len(%s)" % leaf(m.group(1))
    s = re.sub(r"\[[A-Za-z0-9_]+\]", "", s)
    s = re.sub(r"\.(\d+)$", "", s)          # tuple positions of a pair field
    if re.match(r"^[A-Za-z_][A-Za-z0-9_.]*$", s):
        return leaf(s)
    m = re.search(r"([A-Za-z_][A-Za-z0-9_.]*)\.len\(\)", s)
    if m:
        return "len(%s)" % leaf(m.group(1))
    s2 = re.sub(r"[A-Za-z_][A-Za-z0-9_:]*\(", "(", s)       # drop function / method names
    names = sorted({leaf(x) for x in re.findall(r"[A-Za-z_][A-Za-z0-9_.]*", s2) if not x[0].isupper() and x not in ("as",)} - OPS)
    # method names such as raw_value / len are not fields
    names = [n for n in names if n not in ("raw_value", "value", "len", "into", "from", "clone", "to_be_bytes", "unwrap_or")]
    return "expr{%s}" % ",".join(names)


OPS = {"Shl", "Shr", "BitOr", "BitAnd", "Add", "Sub", "Mul", "Div", "Rem", "Eq", "Ne", "Gt", "Lt", "Ge", "Le", "And", "Or", "BitXor"}


_count_params_memo = {}


def count_only_params(fx, fid):
    """indices of parameters of local function `fid` that are used only as repetition counts inside it (argument of
    with_capacity / reserve, end of a `0..n` range): passing a value there does not make it part of what is returned"""
    if fid in _count_params_memo:
        return _count_params_memo[fid]
    _count_params_memo[fid] = set()
    fn = fx.fns.get(fid)
    if fn is None or not fn.get("hir"):
        return set()
    root = hirq.layout_root(fn)
    params = [(i, p.get("lid"), p.get("name")) for i, p in enumerate(fn["hir"]["params"]) if p.get("k") == "bind"]
    counted = set()
    used_elsewhere = set()
    ctx = set()
    for n, _ in hirq.walk(root):
        if n.get("k") in ("call", "mcall") and (n.get("m") in ("with_capacity", "reserve", "reserve_exact") or (n.get("fn") or "").endswith(("::with_capacity", "::from_elem", "::reserve"))):
            for a in n.get("args", []):
                for m, _ in hirq.walk(a):
                    ctx.add(id(m))
        if n.get("k") == "for" and n["iter"].get("k") == "struct" and (n["iter"].get("def") or "").endswith("ops::range::Range"):
            for f in n["iter"]["fields"]:
                for m, _ in hirq.walk(f["e"]):
                    ctx.add(id(m))
    for n, _ in hirq.walk(root):
        if n.get("k") == "path" and n.get("res") == "local":
            for i, lid, nm in params:
                if n.get("lid") == lid or (lid is None and n.get("name") == nm):
                    (counted if id(n) in ctx else used_elsewhere).add(i)
    out = counted - used_elsewhere
    _count_params_memo[fid] = out
    return out


class ReadRoles:
    """which struct field(s) each read effect (atom / byte run / child / helper result) flows into, through
    let-bindings (keyed by binding identity, so shadowed names stay apart), tuple destructuring, assignments to
    accumulator locals, pushes into local collections and wrappers"""

    def __init__(self, fx, fn, L):
        self.fx = fx
        self.fn = fn
        self.bind = {}        # binding lid -> set of effect ids
        self.names = {}       # binding lid -> name
        self.role = {}        # effect id -> set of role strings
        self.node_atom = {}   # id(hir node) -> effect id
        self.buf_of = {}      # effect id of a byte run -> lid of the buffer local it fills
        self.arr_of = {}      # lid of a fixed-size array local filled by read_*_into -> effect ids, element order
        for x in LY.walk(L):
            if x["n"] == "atom" and x.get("arr") and x.get("dir") == "r":
                self.arr_of.setdefault(x["arr"][0], []).append(x["id"])
            if "node" in x and "id" in x and x.get("dir", "r") == "r":
                self.node_atom[x["node"]] = x["id"]
            if x["n"] == "bytes" and x.get("dir") == "r":
                tgt = hirq.strip_wrappers(x["val"])
                if tgt.get("k") == "path" and tgt.get("res") == "local":
                    self.buf_of[x["id"]] = tgt["lid"]
        self.root = hirq.layout_root(fn)
        self.lets()
        self.fields()
        self.returned = self.returned_atoms()

    def atoms_in(self, e):
        """{effect id: hops} for effects whose value reaches expression e (hops = number of binding indirections)"""
        out = {}
        if e is None:
            return out
        skip = set()
        for n, ps in hirq.walk(e):
            if n.get("k") in ("call", "mcall") and (n.get("m") in ("with_capacity", "reserve", "reserve_exact") or (n.get("fn") or "").endswith(("::with_capacity", "::from_elem", "::reserve"))):
                for a in n.get("args", []):
                    for m, _ in hirq.walk(a):
                        skip.add(id(m))
            if n.get("k") in ("call", "mcall"):
                fid = n.get("resolved") or n.get("fn")
                if fid in self.fx.fns:
                    cps = count_only_params(self.fx, fid)
                    args = ([n["recv"]] if n.get("k") == "mcall" else []) + list(n.get("args", []))
                    for i in cps:
                        if i < len(args):
                            for m, _ in hirq.walk(args[i]):
                                skip.add(id(m))
            if id(n) in skip:
                continue
            if id(n) in self.node_atom:
                out[self.node_atom[id(n)]] = 0
            if n.get("k") == "path" and n.get("res") == "local" and n.get("lid") in self.bind:
                for eid, h in self.bind[n["lid"]].items():
                    if eid not in out or out[eid] > h + 1:
                        out[eid] = h + 1
        return out

    def tuple_positions(self, e):
        k = e.get("k")
        if k == "tup":
            return [self.atoms_in(x) for x in e["es"]]
        if k == "block":
            for s in e.get("stmts", []):
                if s["k"] == "let" and "init" in s:
                    self.bind_pat(s["pat"], s["init"])
            if "expr" in e:
                return self.tuple_positions(e["expr"])
            return None
        if k == "if":
            a = self.tuple_positions(e["then"])
            b = self.tuple_positions(e["else"]) if "else" in e else None
            if a and b and len(a) == len(b):
                return [_dmin(x, y) for x, y in zip(a, b)]
            return a or b
        if k == "match":
            res = None
            for arm in e["arms"]:
                t = self.tuple_positions(arm["body"])
                if t is None:
                    continue
                res = t if res is None else ([_dmin(x, y) for x, y in zip(res, t)] if len(res) == len(t) else res)
            return res
        if k == "try":
            return self.tuple_positions(e["e"])
        if k in ("call", "mcall"):
            fnp = e.get("fn") or ""
            if fnp.endswith(("Result::Ok", "Option::Some")) and len(e.get("args", [])) == 1:
                return self.tuple_positions(e["args"][0])
            # a local helper that returns the tuple (its reads were inlined into the layout: same effect ids)
            fid = e.get("resolved") or e.get("fn")
            g = self.fx.fns.get(fid)
            if g is not None and getattr(self, "_tp_depth", 0) < 3:
                root = hirq.layout_root(g)
                if root is not None:
                    self._tp_depth = getattr(self, "_tp_depth", 0) + 1
                    try:
                        return self.tuple_positions(root)
                    finally:
                        self._tp_depth -= 1
        return None

    def add(self, lid, name, ids):
        self.bind[lid] = _dmin(self.bind.get(lid, {}), ids)
        self.names[lid] = name

    def bind_pat(self, pat, init):
        k = pat.get("k")
        src_ = hirq.strip_wrappers(init) if isinstance(init, dict) else {}
        if k == "slice" and pat.get("mid") is None and src_.get("k") == "path" and src_.get("res") == "local" and src_.get("lid") in self.arr_of \
                and len(pat.get("before", [])) + len(pat.get("after", [])) == len(self.arr_of[src_["lid"]]):
            # `let [a, b, c] = buf;` after `read_*_into(&mut buf)`: element i is read i
            for sp, eid in zip(list(pat.get("before", [])) + list(pat.get("after", [])), self.arr_of[src_["lid"]]):
                for nm, lid in hirq.pat_bindings(sp):
                    self.add(lid, nm, {eid: 0})
            return
        if k == "bind":
            self.add(pat["lid"], pat["name"], self.atoms_in(init))
        elif k == "tuple":
            pos = self.tuple_positions(init)
            if pos and len(pos) == len(pat["subs"]):
                for sp, s in zip(pat["subs"], pos):
                    for nm, lid in hirq.pat_bindings(sp):
                        self.add(lid, nm, s)
            else:
                al = self.atoms_in(init)
                for nm, lid in hirq.pat_bindings(pat):
                    self.add(lid, nm, al)
        else:
            al = self.atoms_in(init)
            for nm, lid in hirq.pat_bindings(pat):
                self.add(lid, nm, al)

    def lets(self):
        for _ in range(3):
            for n, _ps in hirq.walk(self.root):
                k = n.get("k")
                if k == "let" and "init" in n:
                    self.bind_pat(n["pat"], n["init"])
                elif k == "letx":
                    self.bind_pat(n["pat"], n["init"])
                elif k == "match":
                    for arm in n["arms"]:
                        self.bind_pat(arm["pat"], n["scrut"])
                elif k == "assign" and n["l"].get("k") == "path" and n["l"].get("res") == "local":
                    self.add(n["l"]["lid"], n["l"]["name"], self.atoms_in(n["r"]))
                elif k == "for" and n["iter"].get("k") == "mcall" and n["iter"]["m"] in ("iter_mut",):
                    # for slot in buf.iter_mut() { *slot = <read> }: the reads fill `buf`
                    tgt = hirq.strip_wrappers(n["iter"]["recv"])
                    slots = {lid for _nm, lid in hirq.pat_bindings(n["pat"])}
                    if tgt.get("k") == "path" and tgt.get("res") == "local":
                        for m2, _p2 in hirq.walk(n["body"]):
                            if m2.get("k") == "assign" and m2["l"].get("k") == "un" and m2["l"].get("op") == "Deref" and m2["l"]["e"].get("lid") in slots:
                                self.add(tgt["lid"], tgt["name"], self.atoms_in(m2["r"]))
                elif k == "assignop" and n["l"].get("k") == "path" and n["l"].get("res") == "local":
                    self.add(n["l"]["lid"], n["l"]["name"], self.atoms_in(n["r"]))
                elif k == "mcall" and n["m"] in ("push", "insert", "extend_from_slice", "push_str", "extend") and n["args"]:
                    r = hirq.strip_wrappers(n["recv"])
                    if r.get("k") == "path" and r.get("res") == "local":
                        ids = {}
                        for a in n["args"]:
                            ids = _dmin(ids, self.atoms_in(a))
                        self.add(r["lid"], r["name"], ids)
            # byte runs fill their buffer local
            for eid, lid in self.buf_of.items():
                self.bind[lid] = _dmin(self.bind.get(lid, {}), {eid: 0})
            for lid, eids in self.arr_of.items():
                self.bind[lid] = _dmin(self.bind.get(lid, {}), {eid: 0 for eid in eids})

    def fields(self):
        """struct literals of local ADTs anywhere in the function: field name <- effects reaching its expression"""
        for n, _ in hirq.walk(self.root):
            if n.get("k") == "struct" and (n.get("def") in self.fx.adts or n.get("res") == "self" or (n.get("def") or "").rsplit("::", 1)[0] in self.fx.adts):
                for f in n["fields"]:
                    for a, h in self.atoms_in(f["e"]).items():
                        self.role.setdefault(a, {})
                        if f["name"] not in self.role[a] or self.role[a][f["name"]] > h:
                            self.role[a][f["name"]] = h
            if n.get("k") == "assign":
                tgt = hirq.path_str(n["l"])
                if tgt and "." in tgt:
                    for a, h in self.atoms_in(n["r"]).items():
                        self.role.setdefault(a, {})[tgt.split(".")[-1]] = h

    def returned_atoms(self):
        """effects whose value reaches what the function returns (its tail expression / `return` operands): for a helper
        that returns a plain value these take the role the caller gives to the call's result"""
        out = set()
        root = self.root
        tails = []
        if root.get("k") == "block" and "expr" in root:
            tails.append(root["expr"])
        elif root.get("k") != "block":
            tails.append(root)
        for n, _ in hirq.walk(root):
            if n.get("k") == "ret" and isinstance(n.get("e"), dict):
                tails.append(n["e"])
        for t in tails:
            out |= set(self.atoms_in(t))
        return out

    def count_bindings(self):
        out = set()
        for n, _ in hirq.walk(self.root):
            if n.get("k") in ("call", "mcall") and (n.get("m") in ("with_capacity",) or (n.get("fn") or "").endswith(("::with_capacity", "::from_elem"))):
                for a in n.get("args", []):
                    for m, _ in hirq.walk(a):
                        if m.get("k") == "path" and m.get("res") == "local":
                            out.add(m["lid"])
            if n.get("k") == "for" and n["iter"].get("k") == "struct" and (n["iter"].get("def") or "").endswith("ops::range::Range"):
                for f in n["iter"]["fields"]:
                    if f["name"] == "end":
                        for m, _ in hirq.walk(f["e"]):
                            if m.get("k") == "path" and m.get("res") == "local":
                                out.add(m["lid"])
            if n.get("k") in ("call", "mcall"):
                fid = n.get("resolved") or n.get("fn")
                if fid in self.fx.fns:
                    args = ([n["recv"]] if n.get("k") == "mcall" else []) + list(n.get("args", []))
                    for i in count_only_params(self.fx, fid):
                        if i < len(args):
                            for m, _ in hirq.walk(args[i]):
                                if m.get("k") == "path" and m.get("res") == "local":
                                    out.add(m["lid"])
        return out

    def role_of(self, eid):
        if not hasattr(self, "_cnt"):
            self._cnt = set()
            for lid in self.count_bindings():
                self._cnt |= set(self.bind.get(lid, {}))
        r = self.role.get(eid)
        if not r:
            if eid in self._cnt:
                return "count"
            return "reserved"
        # the nearest struct field wins (an entry's own field rather than the collection the entry is pushed into)
        m = min(r.values())
        near = sorted(k for k, h in r.items() if h == m)
        if len(near) == 1:
            return near[0]
        return "expr{%s}" % ",".join(near)

    def all_fields(self):
        out = set()
        for r in self.role.values():
            out |= set(r)
        return out


# ------------------------------------------------------------------------------------------------
# flattening under an assignment

_RR_CACHE = {}


class Stop(Exception):
    def __init__(self, ok):
        self.ok = ok


class Flattener:
    def __init__(self, fx, side, roles=None, couplings=None):
        self.fx = fx
        self.side = side            # 'w' | 'r'
        self.roles = roles          # ReadRoles for the read side
        self.couplings = couplings or {}
        self.unknown = []           # conditions that could not be decided
        self.lets = {}              # write side: local name -> initialiser (for rendering what a written local carries)
        self.loopvars = {}          # write side: loop variable -> collection leaf

    def wrole(self, val, subst):
        e = subst_expr(val, subst)
        e = subst_expr(e, self.lets)
        r = write_role(self.fx, e, None)
        if r in self.loopvars:
            return self.loopvars[r]
        return r

    def flat(self, L, A, out, subst=None):
        n = L["n"]
        if n == "seq":
            for x in L["items"]:
                self.flat(x, A, out, subst)
            return
        if n == "let":
            if self.side == "w" and L["pat"].get("k") == "bind" and L.get("init") is not None:
                self.lets[L["pat"]["name"]] = subst_expr(L["init"], subst)
            return
        if n in ("boxstart", "pos"):
            return
        if n == "hdr":
            out.append(("hdr",))
        elif n == "hdrread":
            out.append(("hdrread",))
        elif n == "ext":
            out.append(("ext",))
        elif n == "atom":
            if self.side == "w":
                out.append(("a", L["w"], self.wrole(L["val"], subst)))
            else:
                out.append(("a", L["w"], self.roles.role_of(L["id"]) if self.roles else "?", L["id"]))
        elif n == "zeros":
            c = LY.const_of(self.fx, L["len"])
            out.append(("z", c if c is not None else LY.norm_expr(L["len"])))
        elif n == "skip":
            c = LY.const_of(self.fx, L["len"])
            out.append(("z", c if c is not None else LY.norm_expr(L["len"])))
        elif n == "bytes":
            if self.side == "w":
                out.append(("b", self.wrole(L["val"], subst)))
            else:
                out.append(("b", self.roles.role_of(L["id"]) if self.roles else "?", L["id"]))
        elif n == "child":
            if self.side == "w":
                out.append(("c", L["ty"], self.wrole(L["val"], subst)))
            else:
                out.append(("c", L["ty"], self.roles.role_of(L["id"]) if self.roles else "?", L["id"]))
        elif n == "inline":
            sub = dict(zip(L["params"], L["args"]))
            if subst:
                sub = {k: subst_expr(v, subst) for k, v in sub.items()}
            sub = {k: subst_expr(v, self.lets) for k, v in sub.items() if k}
            inner = []
            saved = self.lets
            saved_roles = self.roles
            self.lets = {}
            if self.side == "r" and L["fn"] in self.fx.fns:
                key = (L["fn"], id(L["body"]))
                rr = _RR_CACHE.get(key)
                if rr is None:
                    rr = ReadRoles(self.fx, self.fx.fns[L["fn"]], L["body"])
                    _RR_CACHE[key] = rr
                self.roles = rr
            try:
                self.flat(L["body"], A, inner, sub)
            except Stop as s:
                if not s.ok:
                    self.lets = saved
                    self.roles = saved_roles
                    raise
            self.lets = saved
            self.roles = saved_roles
            if self.side == "w":
                cand = [a for a, pn in zip(L["args"], L["params"]) if pn not in ("writer", "reader", "w", "r") and not str(a.get("ty", "")).startswith(("&mut W", "&mut R"))]
                role = self.wrole(cand[0], subst) if cand else ""
            else:
                role = self.roles.role_of(L["id"]) if self.roles else "?"
                rr_ = _RR_CACHE.get((L["fn"], id(L["body"])))
                if rr_ is not None and not rr_.role:
                    # a helper that builds no struct itself: what it returns is what the caller stores
                    def retag(ts):
                        res_ = []
                        for tk in ts:
                            if tk[0] in ("a", "b") and len(tk) >= 4 - (tk[0] == "b") and tk[-1] in rr_.returned and tk[-2] == "reserved":
                                # the caller may route this very read to one field (the helper returns a tuple that the
                                # caller destructures); otherwise the helper's result as a whole carries the role
                                own = self.roles.role_of(tk[-1]) if self.roles else "reserved"
                                new_role = own if own not in ("reserved", "?") else role
                                if new_role in ("reserved", "?", "count"):
                                    res_.append(tk)
                                    continue
                                tk = tk[:-2] + (new_role, tk[-1])
                            elif tk[0] == "c" and len(tk) == 4 and tk[3] in rr_.returned and tk[2] == "reserved" and role not in ("reserved", "?", "count"):
                                tk = (tk[0], tk[1], role, tk[3])
                            elif tk[0] in ("alt?",) and len(tk) == 4:
                                tk = (tk[0], tk[1], tuple(retag(tk[2])), tuple(retag(tk[3])))
                            elif tk[0] == "match" and len(tk) == 3:
                                tk = (tk[0], tk[1], tuple((p_, tuple(retag(b_))) for p_, b_ in tk[2]))
                            elif tk[0] == "rep":
                                tk = (tk[0], tk[1], tuple(retag(tk[2]))) + tuple(tk[3:])
                            res_.append(tk)
                        return res_
                    inner = retag(inner)
            out.append(("inline", L["name"].split("::")[-1], L.get("self_ty", ""), role, tuple(inner)))
        elif n == "prim":
            if self.side == "w":
                args = [subst_expr(subst_expr(a, subst), self.lets) for a in L["args"]]
                out.append(("prim", L["kind"], tuple(LY.norm_expr(a) for a in args[1:]), tuple(args[1:])))
            else:
                out.append(("prim", L["kind"], (), ()))
        elif n == "alt":
            c = L["cond"]
            if c.get("k") == "letelse":
                # `let Some(x) = y else { return Err }`: the else branch is a rejection
                return
            if (only_exit(L["then"]) and not has_effects(L["else"])) or (only_exit(L["else"]) and not has_effects(L["then"])):
                return
            v = eval_cond(self.fx, subst_expr(c, subst) if subst else c, A)
            if v is None:
                # a pure validity check (`if bad { return Err }`) does not shape the layout
                if only_reject(L["then"]) and not has_effects(L["else"]):
                    return
                if only_reject(L["else"]) and not has_effects(L["then"]):
                    return
                if only_reject(L["then"]):
                    self.flat(L["else"], A, out, subst)
                    return
                if only_reject(L["else"]):
                    self.flat(L["then"], A, out, subst)
                    return
                self.unknown.append(LY.norm_cond(self.fx, c)[0])
                a, b = [], []
                try:
                    self.flat(L["then"], A, a, subst)
                except Stop:
                    a.append(("stop",))
                try:
                    self.flat(L["else"], A, b, subst)
                except Stop:
                    b.append(("stop",))
                if a == b:
                    out.extend(a)
                else:
                    out.append(("alt?", LY.norm_cond(self.fx, c)[0], tuple(a), tuple(b)))
                return
            self.flat(L["then"] if v else L["else"], A, out, subst)
        elif n == "iflet":
            atom = iflet_atom(L)
            if self.side == "w":
                for nm, _ in hirq.pat_bindings(L["pat"]):
                    self.lets[nm] = subst_expr(L["scrut"], subst)
            if atom is not None:
                if subst:
                    atom = "some(%s)" % LY.norm_expr(subst_expr(L["scrut"], subst))
                atom2 = self.couplings.get(atom, (atom, True))
                v = A.get(atom2[0])
                if v is not None:
                    v = v if atom2[1] else not v
                    self.flat(L["then"] if v else L["else"], A, out, subst)
                    return
            self.unknown.append(atom or "iflet")
            a, b = [], []
            self.flat(L["then"], A, a, subst)
            self.flat(L["else"], A, b, subst)
            if a == b:
                out.extend(a)
            else:
                out.append(("alt?", atom or "iflet", tuple(a), tuple(b)))
        elif n == "match":
            sc = LY.norm_expr(subst_expr(L["scrut"], subst) if subst else L["scrut"])
            chosen = None
            default = None
            for arm in L["arms"]:
                p = tables.pat_norm(self.fx, arm["pat"])
                if p[0] == "int":
                    v = A.get("%s==%s" % (sc, p[1]))
                    if v:
                        chosen = arm
                        break
                elif p[0] == "variant" and p[1] and sc in ("self", "*self") and A.get("self@%s" % p[1].rsplit("::", 1)[-1]):
                    chosen = arm
                    break
                elif p[0] in ("wild", "bind"):
                    default = arm
            if chosen is None:
                # every literal arm false -> default; otherwise undecided
                lits = [tables.pat_norm(self.fx, a["pat"]) for a in L["arms"]]
                if default is not None and all(A.get("%s==%s" % (sc, p[1])) is False for p in lits if p[0] == "int") and any(p[0] == "int" for p in lits):
                    chosen = default
            if chosen is not None:
                self.flat(chosen["body"], A, out, subst)
                return
            # dispatch on something else (e.g. box type): record arms as alternatives
            alts = []
            for arm in L["arms"]:
                a = []
                try:
                    self.flat(arm["body"], A, a, subst)
                except Stop:
                    a.append(("stop",))
                alts.append((hirq.pat_str(arm["pat"]), tuple(a)))
            out.append(("match", sc, tuple(alts)))
        elif n == "rep":
            body = []
            if self.side == "w":
                # `for v in [a, b, c] { write(v) }` (also `[[..], [..]].iter().flatten()`): a loop over an array literal
                # is its body once per element, in order
                elems = literal_elements(subst_expr(subst_expr(L["iter"], subst), self.lets))
                if elems is not None and L["pat"].get("k") == "bind":
                    for el in elems:
                        sub_i = dict(subst or {})
                        sub_i[L["pat"]["name"]] = el
                        self.flat(L["body"], A, out, sub_i)
                    return
                it0 = subst_expr(subst_expr(L["iter"], subst), self.lets)
                coll = rep_count_role(self.fx, it0)
                coll = coll[4:-1] if coll.startswith("len(") else None
                if coll:
                    for nm, _ in hirq.pat_bindings(L["pat"]):
                        self.loopvars[nm] = coll
            try:
                self.flat(L["body"], A, body, subst)
            except Stop as s:
                body.append(("stop",))
            it = subst_expr(L["iter"], subst) if subst else L["iter"]
            it = subst_expr(it, self.lets)
            out.append(("rep", rep_count_role(self.fx, it), tuple(body)))
        elif n in ("while", "loop"):
            body = []
            try:
                self.flat(L["body"], A, body, subst)
            except Stop:
                body.append(("stop",))
            out.append(("loop", tuple(body)))
        elif n == "ret":
            raise Stop(L["ok"] is not False)
        elif n in ("seekto", "seek", "skipbox", "brk", "cont", "closure"):
            if n == "seekto":
                out.append(("seekto", LY.norm_expr(L["to"])))
            elif n == "skipbox":
                out.append(("skipbox",))
            elif n == "seek":
                out.append(("seek", LY.norm_expr(L["how"])))

    def run(self, L, A):
        out = []
        ok = True
        try:
            self.flat(L, A, out)
        except Stop as s:
            ok = s.ok
        return out, ok


def subst_expr(e, subst):
    """replace local paths by their substituted expressions (one level, for inlined helpers)"""
    if not subst or e is None:
        return e
    k = e.get("k")
    if k == "path" and e.get("res") == "local" and e["name"] in subst:
        return subst[e["name"]]
    out = dict(e)
    for key in ("e", "l", "r", "recv", "i", "cond", "init", "scrut"):
        if isinstance(e.get(key), dict):
            out[key] = subst_expr(e[key], subst)
    for key in ("args", "es"):
        if isinstance(e.get(key), list):
            out[key] = [subst_expr(x, subst) for x in e[key]]
    return out


def only_reject(L):
    """layout that only returns an error (no stream effect)"""
    items = L["items"] if L["n"] == "seq" else [L]
    eff = [x for x in items if x["n"] not in ("let",)]
    return len(eff) == 1 and eff[0]["n"] == "ret" and eff[0]["ok"] is False


def only_exit(L):
    """layout that only leaves (return Err / break / continue), no stream effect"""
    items = L["items"] if L["n"] == "seq" else [L]
    eff = [x for x in items if x["n"] not in ("let",)]
    return bool(eff) and all((x["n"] == "ret" and x["ok"] is False) or x["n"] in ("brk", "cont") for x in eff)


def has_effects(L):
    return any(x["n"] not in ("seq", "let", "ret") for x in LY.walk(L))


def literal_elements(it):
    """elements, in iteration order, of `<array literal>[.iter() | .into_iter() | .copied() | .cloned() | .flatten()]*`, else None"""
    flat_n = 0
    e = it
    for _ in range(8):
        e = hirq.strip_wrappers(e)
        if e.get("k") == "mcall" and e["m"] in ("iter", "into_iter", "copied", "cloned", "flatten") and not e.get("args"):
            flat_n += 1 if e["m"] == "flatten" else 0
            e = e["recv"]
            continue
        break
    e = hirq.strip_wrappers(e)
    if e.get("k") != "array":
        return None
    elems = list(e["es"])
    for _ in range(flat_n):
        nxt = []
        for x in elems:
            x = hirq.strip_wrappers(x)
            if x.get("k") != "array":
                return None
            nxt.extend(x["es"])
        elems = nxt
    return elems


def rep_count_role(fx, it):
    """role of the trip count of a `for`: len(<coll>) for iterators over a collection, the bound expr for ranges"""
    k = it.get("k")
    if k == "struct" and (it.get("def") or "").endswith("ops::range::Range"):
        fs = {f["name"]: f["e"] for f in it["fields"]}
        c = LY.const_of(fx, fs.get("end"))
        if c is not None:
            return "const:%s" % c
        return "count:" + leaf(LY.norm_expr(fs.get("end")))
    s = LY.norm_expr(it)
    for _ in range(4):
        s2 = re.sub(r"\.(iter|values|into_iter|iter_mut|copied|cloned)\(\)$", "", s)
        if s2 == s:
            break
        s = s2
    return "len(%s)" % leaf(s)


# ------------------------------------------------------------------------------------------------
# couplings established by the reader: field is Some <=> flag test

def read_couplings(fx, fn):
    """{ 'some(<field>)': (atom, polarity) } for `let f = if C { Some(..) } else { None }` (also inside tuples)"""
    out = {}
    root = hirq.layout_root(fn)
    for n, _ in hirq.walk(root):
        if n.get("k") == "let" and "init" in n and n["pat"].get("k") == "bind":
            init = n["init"]
            if init.get("k") == "if" and "else" in init:
                th = tables.peel(init["then"])
                el = tables.peel(init["else"])
                th_tail = th.get("expr", th) if th.get("k") == "block" else th
                el_tail = el.get("expr", el) if el.get("k") == "block" else el
                some = th_tail.get("k") == "call" and (th_tail.get("fn") or "").endswith("Option::Some")
                none = el_tail.get("k") == "path" and (el_tail.get("def") or "").endswith("Option::None")
                if some and none:
                    out["some(%s)" % n["pat"]["name"]] = LY.norm_cond(fx, init["cond"])
    return out


# ------------------------------------------------------------------------------------------------
# sizes

def tokens_size(fx, toks, fixed=None):
    """linear form of the number of bytes described by flattened tokens (fixed: field name -> byte length for
    fixed-size array fields)"""
    lf = {}
    for t in toks:
        k = t[0]
        if k == "hdr":
            lf = lin_add(lf, lin_const(8))
        elif k == "ext":
            lf = lin_add(lf, lin_const(4))
        elif k == "a":
            lf = lin_add(lf, lin_const(t[1]))
        elif k == "z":
            if isinstance(t[1], int):
                lf = lin_add(lf, lin_const(t[1]))
            else:
                lf = lin_add(lf, {"zeros(%s)" % t[1]: 1})
        elif k == "b":
            nm = t[1].replace("expr{", "").replace("}", "")
            n_fixed = (fixed or {}).get(nm)
            if n_fixed is not None:
                lf = lin_add(lf, lin_const(n_fixed))
            else:
                lf = lin_add(lf, {"len(%s)" % nm: 1})
        elif k == "c":
            lf = lin_add(lf, {"size(%s)" % t[2]: 1})
        elif k == "rep":
            inner = tokens_size(fx, t[2], fixed)
            cnt = t[1]
            if cnt.startswith("count:"):
                cnt = cnt[6:]
            mfix = re.match(r"len\((?:self\.)?(\w+)\)$", cnt)
            if mfix and (fixed or {}).get("#" + mfix.group(1)) is not None:
                cnt = "const:%d" % fixed["#" + mfix.group(1)]       # iteration over a fixed-size array field
            if cnt.startswith("const:"):
                lf = lin_add(lf, lin_scale(inner, int(cnt[6:])))
            elif set(inner) <= {None}:
                lf = lin_add(lf, {cnt: inner.get(None, 0)})
            else:
                coll = cnt[4:-1] if cnt.startswith("len(") else cnt
                lf = lin_add(lf, {("sum", coll, tuple(sorted(inner.items(), key=repr))): 1})
        elif k == "inline":
            lf = lin_add(lf, tokens_size(fx, t[4], fixed))
        elif k == "prim":
            if t[1] == "deschdr" and len(t[3]) >= 2:
                # tag byte + variable-length size field: 1 + size_of_length(size)
                se = SizeEval(fx, {}, {})
                sz = se.ev(t[3][1], {}, "", 0)
                if set(sz) <= {None}:
                    v = sz.get(None, 0)
                    nb = 1 if v <= 0x7F else 2 if v <= 0x3FFF else 3 if v <= 0x1FFFFF else 4
                    lf = lin_add(lf, lin_const(1 + nb))
                else:
                    lf = lin_add(lf, {"deschdr(%s)" % lin_str(sz): 1})
            else:
                lf = lin_add(lf, {"prim(%s)" % t[1]: 1})
        elif k == "alt?":
            a = tokens_size(fx, t[2], fixed)
            b = tokens_size(fx, t[3], fixed)
            if lin_key(a) == lin_key(b):
                lf = lin_add(lf, a)
            else:
                lf = lin_add(lf, {"alt?(%s)" % t[1]: 1})
    return lf


class SizeEval:
    """symbolic evaluation of a box_size()/get_size()-like function body to a linear form, under an assignment"""

    def __init__(self, fx, A, couplings=None):
        self.fx = fx
        self.A = A
        self.couplings = couplings or {}
        self.notes = []

    def fn_size(self, fn, self_role="", depth=0):
        root = hirq.layout_root(fn)
        env = {}
        return self.block(root, env, self_role, depth)

    def block(self, n, env, sr, depth):
        if n.get("k") != "block":
            return self.ev(n, env, sr, depth)
        for s in n.get("stmts", []):
            if s["k"] == "let" and s["pat"].get("k") == "bind" and "init" in s:
                self.__dict__.setdefault("let_exprs", {})[s["pat"]["name"]] = s["init"]
                env[s["pat"]["name"]] = self.ev(s["init"], env, sr, depth)
            elif s["k"] in ("semi", "expr"):
                self.stmt(s["e"], env, sr, depth)
        if "expr" in n:
            return self.ev(n["expr"], env, sr, depth)
        return {}

    def stmt(self, e, env, sr, depth):
        k = e.get("k")
        if k == "assignop" and e["op"] == "AddAssign":
            tgt = hirq.path_str(e["l"])
            if tgt in env:
                env[tgt] = lin_add(env[tgt], self.ev(e["r"], env, sr, depth))
        elif k == "assign":
            tgt = hirq.path_str(e["l"])
            if tgt in env:
                env[tgt] = self.ev(e["r"], env, sr, depth)
        elif k == "if":
            self.do_if(e, env, sr, depth, as_stmt=True)
        elif k == "for":
            # for x in coll { <body updating accumulators> }: evaluate the body once with every visible accumulator
            # replaced by a marker; what the body adds to the marker is the per-element contribution
            coll = rep_count_role(self.fx, e["iter"])
            coll = coll[4:-1] if coll.startswith("len(") else coll
            names = [nm for nm, _ in hirq.pat_bindings(e["pat"])]
            inner_env = {v: {("acc", v): 1} for v in env}
            body_ = e["body"]
            if body_.get("k") == "block":
                self.block(body_, inner_env, "elem", depth)
            else:
                self.stmt(body_, inner_env, "elem", depth)
            for v in list(env):
                res = inner_env.get(v)
                if res is None or res.get(("acc", v)) != 1:
                    if res is not None and res != {("acc", v): 1}:
                        env[v] = {"?loop-assign(%s)" % v: 1}
                    continue
                step = {t: c for t, c in res.items() if t != ("acc", v)}
                if not step:
                    continue
                step = {(("size(%s)" % coll) if isinstance(t, str) and t in ["size(%s)" % nm for nm in names] else t): c for t, c in step.items()}
                if set(step) <= {None}:
                    env[v] = lin_add(env[v], {"len(%s)" % coll: step.get(None, 0)})
                else:
                    env[v] = lin_add(env[v], {("sum", coll, tuple(sorted(step.items(), key=repr))): 1})
        elif k == "block":
            self.block(e, env, sr, depth)
        elif k == "match":
            self.do_match(e, env, sr, depth, as_stmt=True)

    def do_if(self, e, env, sr, depth, as_stmt=False):
        c = e["cond"]
        if c.get("k") == "letx":
            p = c["pat"]
            atom = None
            if p.get("k") == "tuplestruct" and (p.get("def") or "").endswith("Option::Some"):
                atom = "some(%s)" % LY.norm_expr(c["init"])
            a2 = self.couplings.get(atom, (atom, True))
            v = self.A.get(a2[0])
            if v is not None:
                v = v if a2[1] else not v
        else:
            v = eval_cond(self.fx, c, self.A)
        if v is None:
            self.notes.append("undecided condition in size function: %s" % hirq.expr_str(c))
            if as_stmt:
                return {}
            return {"?cond": 1}
        br = e["then"] if v else e.get("else")
        if br is None:
            return {}
        if as_stmt:
            if br.get("k") == "block":
                for s in br.get("stmts", []):
                    if s["k"] in ("semi", "expr"):
                        self.stmt(s["e"], env, sr, depth)
                if "expr" in br:
                    self.stmt(br["expr"], env, sr, depth)
            else:
                self.stmt(br, env, sr, depth)
            return {}
        return self.block(br, dict(env), sr, depth) if br.get("k") == "block" else self.ev(br, env, sr, depth)

    def do_match(self, e, env, sr, depth, as_stmt=False):
        sc = LY.norm_expr(e["scrut"])
        chosen = None
        default = None
        cval = self.ev(e["scrut"], env, sr, depth) if e["scrut"].get("k") != "path" or e["scrut"].get("name") in env else None
        if cval is not None and set(cval) <= {None}:
            v = cval.get(None, 0)
            for arm in e["arms"]:
                p = tables.pat_norm(self.fx, arm["pat"])
                if (p[0] == "int" and p[1] == v) or (p[0] == "range" and (p[1] is None or p[1] <= v) and (p[2] is None or v <= p[2])) or p[0] in ("wild", "bind"):
                    return self.ev(arm["body"], env, sr, depth) if not as_stmt else (self.stmt(arm["body"], env, sr, depth) or {})
        for arm in e["arms"]:
            p = tables.pat_norm(self.fx, arm["pat"])
            if p[0] == "int" and self.A.get("%s==%s" % (sc, p[1])):
                chosen = arm
                break
            if p[0] == "variant" and p[1] and sc in ("self", "*self") and self.A.get("self@%s" % p[1].rsplit("::", 1)[-1]):
                chosen = arm
                break
            if p[0] in ("wild", "bind"):
                default = arm
        if chosen is None:
            lits = [tables.pat_norm(self.fx, a["pat"]) for a in e["arms"]]
            if default is not None and any(p[0] == "int" for p in lits) and all(self.A.get("%s==%s" % (sc, p[1])) is False for p in lits if p[0] == "int"):
                chosen = default
        if chosen is None:
            self.notes.append("undecided match in size function on %s" % sc)
            return {"?match": 1}
        if as_stmt:
            self.stmt(chosen["body"], env, sr, depth)
            return {}
        return self.ev(chosen["body"], env, sr, depth)

    def ev(self, e, env, sr, depth):
        k = e.get("k")
        if k == "block":
            return self.block(e, dict(env), sr, depth)
        c = LY.const_of(self.fx, e)
        if isinstance(c, int) and not isinstance(c, bool):
            return lin_const(c)
        if k == "path" and e.get("res") == "local":
            if e["name"] in env:
                return dict(env[e["name"]])
            return {LY.norm_expr(e): 1}
        if k == "cast" or k == "addrof" or (k == "un" and e.get("op") == "Deref"):
            return self.ev(e["e"], env, sr, depth)
        if k == "bin":
            op = e["op"]
            if op == "Add":
                return lin_add(self.ev(e["l"], env, sr, depth), self.ev(e["r"], env, sr, depth))
            if op == "Sub":
                return lin_add(self.ev(e["l"], env, sr, depth), self.ev(e["r"], env, sr, depth), -1)
            if op == "Mul":
                a = self.ev(e["l"], env, sr, depth)
                b = self.ev(e["r"], env, sr, depth)
                if set(a) <= {None}:
                    return lin_scale(b, a.get(None, 0))
                if set(b) <= {None}:
                    return lin_scale(a, b.get(None, 0))
                return {"(%s)*(%s)" % (lin_str(a), lin_str(b)): 1}
        if k == "if":
            return self.do_if(e, env, sr, depth)
        if k == "match":
            return self.do_match(e, env, sr, depth)
        if k == "mcall":
            m = e["m"]
            r = LY.norm_expr(e["recv"])
            if m == "len" and not e["args"]:
                return {"len(%s)" % leaf(r): 1}
            fid = e.get("resolved") or e.get("fn")
            if m in ("box_size", "get_size", "size", "desc_size") and not e["args"]:
                return self.size_call(fid, e["recv"], env, sr, depth)
            if m == "fold" and len(e["args"]) == 2 and e["args"][1].get("k") == "closure":
                # coll.iter().fold(INIT, |acc, x| acc + f(x))  ==  INIT + sum over coll of f(elem)
                clo = e["args"][1]
                pn = [nm for p in clo["params"] for nm, _ in hirq.pat_bindings(p)]
                if len(pn) == 2:
                    coll = rep_count_role(self.fx, e["recv"])
                    coll = coll[4:-1] if coll.startswith("len(") else coll
                    env2 = dict(env)
                    env2[pn[0]] = {"__acc": 1}
                    res = self.ev(clo["body"], env2, "elem", depth)
                    if res.get("__acc") == 1:
                        step = {t: c for t, c in res.items() if t != "__acc"}
                        # the element's own size is named after the collection, as in the loop form
                        step = {(("size(%s)" % coll) if t == "size(%s)" % pn[1] else t): c for t, c in step.items()}
                        init = self.ev(e["args"][0], env, sr, depth)
                        if set(step) <= {None}:
                            return lin_add(init, {"len(%s)" % coll: step.get(None, 0)})
                        return lin_add(init, {("sum", coll, tuple(sorted(step.items(), key=repr))): 1})
            if (m == "unwrap_or" and len(e["args"]) == 1) or (m == "map_or" and len(e["args"]) == 2):
                # opt.as_ref().map(|x| x.box_size()).unwrap_or(0)   /   opt.as_ref().map_or(0, |x| x.box_size())
                inner = e["recv"]
                if m == "map_or":
                    inner = {"k": "mcall", "m": "map", "recv": e["recv"], "args": [e["args"][1]]}
                if inner.get("k") == "mcall" and inner["m"] == "map":
                    opt = inner["recv"]
                    while opt.get("k") == "mcall" and opt["m"] in ("as_ref", "as_mut"):
                        opt = opt["recv"]
                    atom = "some(%s)" % LY.norm_expr(opt)
                    a2 = self.couplings.get(atom, (atom, True))
                    v = self.A.get(a2[0])
                    if v is not None:
                        v = v if a2[1] else not v
                    if v is False:
                        return self.ev(e["args"][0], env, sr, depth)
                    if v is True:
                        clo = inner["args"][0]
                        if clo.get("k") == "closure":
                            pn = [nm for p in clo["params"] for nm, _ in hirq.pat_bindings(p)]
                            body = clo["body"]
                            res = self.ev(body, env, sr, depth)
                            # rename the closure parameter to the option's field
                            ren = {}
                            for t, cf in res.items():
                                if isinstance(t, str) and pn and t == "size(%s)" % pn[0]:
                                    ren["size(%s)" % leaf(LY.norm_expr(opt))] = cf
                                else:
                                    ren[t] = cf
                            return ren
                    self.notes.append("undecided option in size function: %s" % atom)
                    return {"?opt(%s)" % atom: 1}
            if m == "sum" and not e["args"]:
                # coll.iter().map(|x| f(x)).sum()
                inner = e["recv"]
                if inner.get("k") == "mcall" and inner["m"] == "map" and inner["args"] and inner["args"][0].get("k") == "closure":
                    coll = rep_count_role(self.fx, inner["recv"])
                    coll = coll[4:-1] if coll.startswith("len(") else coll
                    clo = inner["args"][0]
                    res = self.ev(clo["body"], dict(env), "elem", depth)
                    pn_ = [nm for p in clo.get("params", []) for nm, _ in hirq.pat_bindings(p)]
                    if pn_:
                        res = {(("size(%s)" % coll) if t == "size(%s)" % pn_[0] else t): c for t, c in res.items()}
                    if set(res) <= {None}:
                        return {"len(%s)" % coll: res.get(None, 0)}
                    return {("sum", coll, tuple(sorted(res.items(), key=repr))): 1}
            if m in ("into", "clone") and not e["args"]:
                return self.ev(e["recv"], env, sr, depth)
            if m == "count_ones" and not e["args"]:
                # (flags & MASK).count_ones(): in a shape cell every flag test `flags&0x<bit>` is decided, so the count is
                # the number of mask bits whose test is true
                inner = e["recv"]
                for _ in range(4):
                    if inner.get("k") in ("cast",) or (inner.get("k") == "block" and not inner.get("stmts") and "expr" in inner):
                        inner = inner["e"] if "e" in inner else inner["expr"]
                    elif inner.get("k") == "path" and inner.get("res") == "local" and inner.get("name") in self.__dict__.get("let_exprs", {}):
                        inner = self.let_exprs[inner["name"]]
                    else:
                        break
                if inner.get("k") == "bin" and inner["op"] == "BitAnd":
                    for var, msk in ((inner["l"], inner["r"]), (inner["r"], inner["l"])):
                        c = LY.const_of(self.fx, msk)
                        vs = leaf(LY.norm_expr(var))
                        if isinstance(c, int) and vs:
                            total = 0
                            known = True
                            bit = 1
                            while bit <= c:
                                if c & bit:
                                    v = self.A.get("%s&0x%x" % (vs, bit))
                                    if v is None:
                                        known = False
                                        break
                                    total += 1 if v else 0
                                bit <<= 1
                            if known:
                                return lin_const(total)
        if k == "call":
            fid = e.get("resolved") or e.get("fn")
            if (e.get("fn") or "").endswith("From::from") and len(e["args"]) == 1:
                return self.ev(e["args"][0], env, sr, depth)
            if fid in self.fx.fns and depth < 6:
                f = self.fx.fns[fid]
                # associated helper such as EmsgBox::size_without_message(version, a, b): evaluate its body with
                # parameters bound to the argument forms
                params = [p.get("name") for p in f["hir"]["params"]]
                sub_env = {}
                for p, a in zip(params, e["args"]):
                    if p:
                        sub_env[p] = self.ev(a, env, sr, depth)
                se = SizeEval(self.fx, self.A, self.couplings)
                root = hirq.layout_root(f)
                res = se.block(root, sub_env, sr, depth + 1) if root.get("k") == "block" else se.ev(root, sub_env, sr, depth + 1)
                self.notes.extend(se.notes)
                return res
        if k == "field":
            return {LY.norm_expr(e): 1}
        return {"?" + hirq.expr_str(e)[:40]: 1}

    def size_call(self, fid, recv, env, sr, depth):
        r = LY.norm_expr(recv)
        f = self.fx.fns.get(fid)
        if f is None or depth > 6:
            return {"size(%s)" % leaf(r): 1}
        ts = short((f.get("impl") or {}).get("trait") or "")
        st = short((f.get("impl") or {}).get("self_ty") or "")
        # box_size of a child box: keep symbolic (the child's own check covers it); helpers (NalUnit::size ...) are expanded
        is_box = self.fx.impl_fn(st, "Mp4Box", "box_size") is not None
        if ts == "Mp4Box" or (f["name"] in ("get_size",) and is_box):
            if r == "self":
                # box_size() -> get_size(): follow
                se = SizeEval(self.fx, self.A, self.couplings)
                res = se.fn_size(f, sr, depth + 1)
                self.notes.extend(se.notes)
                return res
            return {"size(%s)" % leaf(r): 1}
        se = SizeEval(self.fx, self.A, self.couplings)
        res = se.fn_size(f, "elem", depth + 1)
        self.notes.extend(se.notes)
        return res


def assignments(atoms):
    """all consistent assignments of the given atoms (X==c atoms of one variable are mutually exclusive)"""
    atoms = sorted(set(a for a in atoms if not a.startswith("?")))
    groups = {}
    free = []
    for a in atoms:
        m = re.match(r"(.+)==(-?\d+)$", a)
        m2 = re.match(r"(.+)@(\w+)$", a)
        if m:
            groups.setdefault(m.group(1), []).append(a)
        elif m2:
            groups.setdefault("@" + m2.group(1), []).append(a)
        else:
            free.append(a)
    choices = []
    for var, al in sorted(groups.items()):
        opts = [{x: (x == y) for x in al} for y in al]
        if not var.startswith("@"):
            opts.append({x: False for x in al})
        choices.append(opts)
    for a in free:
        choices.append([{a: True}, {a: False}])
    if not choices:
        yield {}
        return
    n = 0
    for combo in itertools.product(*choices):
        A = {}
        for c in combo:
            A.update(c)
        yield A
        n += 1
        if n >= 256:
            return


# ------------------------------------------------------------------------------------------------
# canonical form and comparison

def is_cstr_write(inner):
    """helper body that writes the bytes of a string followed by a 0 byte"""
    c = [t for t in inner if t[0] not in ("seekto",)]
    return len(c) == 2 and c[0][0] == "rep" and len(c[0][2]) == 1 and c[0][2][0][0] == "a" and c[0][2][0][1] == 1 and c[1][0] == "a" and c[1][1] == 1 and c[1][2] == "const:0"


def is_cstr_read(inner):
    """helper body that reads single bytes in a loop (until NUL)"""
    c = [t for t in inner if t[0] not in ("seekto",)]
    # the loop may be preceded by single-byte reads (first byte read before a `while last != 0` loop)
    while len(c) > 1 and c[0][0] == "a" and c[0][1] == 1:
        c = c[1:]
    return len(c) == 1 and c[0][0] == "loop" and len(c[0][1]) >= 1 and all(x[0] == "a" and x[1] == 1 for x in c[0][1] if x[0] == "a") and any(x[0] == "a" for x in c[0][1])


def child_tokens(toks, acc):
    for t in toks:
        if t[0] == "c":
            acc.add((t[1], t[2]))
        elif t[0] == "inline" and t[1] in ("write_desc", "read_desc"):
            acc.add((t[2], t[3]))
        elif t[0] == "rep":
            child_tokens(t[2], acc)
        elif t[0] == "loop":
            child_tokens(t[1], acc)
        elif t[0] == "alt?":
            child_tokens(t[2], acc)
            child_tokens(t[3], acc)
        elif t[0] == "match":
            for _, b in t[2]:
                child_tokens(b, acc)
        elif t[0] == "inline":
            child_tokens(t[4], acc)
    return acc


def only_children(toks):
    """token list consisting of child encodings only (possibly under rep / alt?)"""
    for t in toks:
        if t[0] == "c" or (t[0] == "inline" and t[1] in ("write_desc",)):
            continue
        if t[0] == "rep" and only_children(t[2]):
            continue
        if t[0] == "alt?" and only_children(t[2]) and only_children(t[3]):
            continue
        return False
    return True


def is_child_loop(t):
    """read-side loop that walks child boxes / descriptors"""
    if t[0] not in ("loop", "rep"):
        return False
    body = t[1] if t[0] == "loop" else t[2]

    def has_hdr(ts):
        for x in ts:
            if x[0] == "hdrread" or (x[0] == "prim" and x[1] == "deschdr"):
                return True
            if x[0] in ("alt?",) and (has_hdr(x[2]) or has_hdr(x[3])):
                return True
            if x[0] == "match" and any(has_hdr(b) for _, b in x[2]):
                return True
        return False
    return has_hdr(body)


def canon(toks, side):
    """canonical token list for comparing a write layout with a read layout:
       ('ext',) ('res', nbytes) ('f', w, role) ('b', role) ('cstr', role) ('rep', count, body) ('children', frozenset)
       ('prim', kind) ('alt?', ..)"""
    out = []

    def push_res(n):
        if out and out[-1][0] == "res" and isinstance(out[-1][1], int) and isinstance(n, int):
            out[-1] = ("res", out[-1][1] + n)
        else:
            out.append(("res", n))

    def push_children(cs):
        if out and out[-1][0] == "children":
            out[-1] = ("children", out[-1][1] | frozenset(cs))
        else:
            out.append(("children", frozenset(cs)))
    toks = list(toks)
    # children region: from the first child-box header read (decoder) / first child encoding (encoder) to the end
    start = None
    for i, t in enumerate(toks):
        if t[0] == "hdrread" or is_child_loop(t) or (t[0] in ("alt?", "match") and contains_hdr([t])):
            start = i
            break
        if side == "w" and (t[0] == "c" or (t[0] in ("rep", "alt?") and only_children([t]) and child_tokens([t], set()))):
            start = i
            break
    tail_children = None
    if start is not None:
        tail_children = frozenset(child_tokens(toks[start:], set()))
        toks = toks[:start]
    for t in toks:
        k = t[0]
        if k in ("hdr", "seekto", "stop", "skipbox", "seek"):
            continue
        if k == "ext":
            out.append(("ext",))
        elif k == "z":
            push_res(t[1])
        elif k == "a":
            role = t[2]
            if role.startswith("const:") or role == "reserved":
                push_res(t[1])
            elif role.startswith("len(") or role == "count" or role.startswith("count:"):
                out.append(("f", t[1], "count"))
            else:
                out.append(("f", t[1], role))
        elif k == "b":
            out.append(("b", t[1]))
        elif k == "c":
            push_children([(t[1], t[2])])
        elif k == "prim":
            out.append(("prim", t[1]))
        elif k == "inline":
            inner = list(t[4])
            if side == "w" and is_cstr_write(inner):
                out.append(("cstr", t[3]))
            elif side == "r" and is_cstr_read(inner):
                out.append(("cstr", t[3]))
            elif t[1] in ("write_desc", "read_desc"):
                push_children([(t[2], t[3])])
            else:
                for x in canon(inner, side):
                    if x[0] == "res":
                        push_res(x[1])
                    elif x[0] == "children":
                        push_children(x[1])
                    else:
                        out.append(x)
        elif k == "rep":
            cnt = t[1]
            body = canon(t[2], side)
            mfix = re.match(r"len\((?:self\.)?(\w+)\)$", cnt)
            if mfix and FIXED_CTX.get("#" + mfix.group(1)) is not None:
                cnt = "const:%d" % FIXED_CTX["#" + mfix.group(1)]      # loop over a fixed-size array field = N explicit copies
            if cnt.startswith("const:") and all(x[0] == "res" and isinstance(x[1], int) for x in body):
                push_res(int(cnt[6:]) * sum(x[1] for x in body))
                continue
            if cnt.startswith("const:") and int(cnt[6:]) <= 16 and all(x[0] in ("f", "res") for x in body):
                for _ in range(int(cnt[6:])):
                    for x in body:
                        if x[0] == "res":
                            push_res(x[1])
                        else:
                            out.append(x)
                continue
            if is_child_loop(t) or (body and all(x[0] == "children" for x in body)):
                push_children(child_tokens(t[2], set()))
                continue
            if cnt.startswith("len(") or cnt.startswith("count:"):
                cnt = "count"
            out.append(("rep", cnt, tuple(body)))
        elif k == "loop":
            if is_child_loop(t):
                push_children(child_tokens(t[1], set()))
            else:
                out.append(("loop", tuple(canon(t[1], side))))
        elif k == "alt?":
            a2, b2 = canon(t[2], side), canon(t[3], side)
            if all(x[0] == "children" for x in a2 + b2) and (a2 or b2):
                cs = set()
                for x in a2 + b2:
                    cs |= set(x[1])
                push_children(cs)
            else:
                out.append(("alt?", t[1], tuple(a2), tuple(b2)))
        elif k == "match":
            arms = tuple((p, tuple(canon(b, side))) for p, b in t[2])
            if not any(b for _, b in arms):
                continue          # a match without stream effect in any arm (e.g. on the result of a checked subtraction)
            if all(all(x[0] == "children" for x in b) for _, b in arms):
                cs = set()
                for _, b in arms:
                    for x in b:
                        cs |= set(x[1])
                push_children(cs)
            else:
                out.append(("match", t[1], arms))
        elif k == "hdrread":
            out.append((k,))
    if tail_children is not None:
        push_children(tail_children)
    return out


FIXED_CTX = {}


def set_fixed(fixed):
    """element counts of the fixed-size array fields of the box whose layouts are about to be canonicalised"""
    FIXED_CTX.clear()
    FIXED_CTX.update(fixed or {})


def contains_hdr(ts):
    for x in ts:
        if x[0] == "hdrread" or (x[0] == "prim" and x[1] == "deschdr"):
            return True
        if x[0] == "alt?" and (contains_hdr(x[2]) or contains_hdr(x[3])):
            return True
        if x[0] == "match" and any(contains_hdr(b) for _, b in x[2]):
            return True
        if x[0] == "loop" and contains_hdr(x[1]):
            return True
        if x[0] == "rep" and contains_hdr(x[2]):
            return True
        if x[0] == "inline" and contains_hdr(x[4]):
            return True
    return False


def role_eq(a, b):
    if a == b:
        return True
    sa = set(a[5:-1].split(",")) if a.startswith("expr{") else {a}
    sb = set(b[5:-1].split(",")) if b.startswith("expr{") else {b}
    sa.discard("")
    sb.discard("")
    return sa == sb


def first_diff(cw, cr, path="", empties=None):
    """None when equal, else a description of the first difference"""
    if not path:
        cw = list(cw)
        while cw and cw[-1][0] == "res" and len(cw) > len(cr):
            cw.pop()        # trailing reserved bytes: skipped by the decoder's reposition to the end of the box
        if cw and cr and cw[-1][0] == "children" and cr[-1][0] == "children" and len(cw) < len(cr):
            pass
    for i in range(max(len(cw), len(cr))):
        a = cw[i] if i < len(cw) else None
        b = cr[i] if i < len(cr) else None
        here = "%s[%d]" % (path, i)
        if a is None and b is not None and b[0] == "children":
            continue        # optional children absent in this cell
        if a is None and b is not None and b[0] == "b" and empties and ("empty(%s)" % b[1]) in empties:
            continue        # an empty byte run is not written
        if a is None or b is None:
            return "%s: write has %s, read has %s" % (here, a, b)
        if a[0] == "res" and b[0] == "f" and b[2] == "count" and a[1] == b[1]:
            continue      # the encoder writes a constant count
        if a[0] != b[0]:
            return "%s: write %s vs read %s" % (here, a, b)
        if a[0] == "children":
            wa = {(ty, r) for ty, r in a[1]}
            rb = {(ty, r) for ty, r in b[1]}
            extra = {x for x in wa if not any(x[0] == y[0] and role_eq(x[1], y[1]) for y in rb)}
            if extra:
                return "%s: encoder writes child %s that the decoder does not store in the same field (decoder: %s)" % (here, sorted(extra), sorted(rb))
            continue
        if a[0] == "cstr":
            if not role_eq(a[1], b[1]):
                return "%s: NUL-terminated string differs: write '%s', read '%s'" % (here, a[1], b[1])
            continue
        if a[0] == "f":
            if a[1] != b[1]:
                return "%s: width differs: write %d bytes (%s), read %d bytes (%s)" % (here, a[1], a[2], b[1], b[2])
            if not role_eq(a[2], b[2]):
                return "%s: %d-byte field differs: write carries '%s', read stores it into '%s'" % (here, a[1], a[2], b[2])
        elif a[0] == "res":
            if a[1] != b[1]:
                return "%s: reserved run differs: write %s bytes, read %s bytes" % (here, a[1], b[1])
        elif a[0] == "b":
            if not role_eq(a[1], b[1]):
                return "%s: byte run differs: write '%s', read '%s'" % (here, a[1], b[1])
        elif a[0] == "c":
            if a[1] != b[1]:
                return "%s: child type differs: write %s, read %s" % (here, a[1], b[1])
        elif a[0] == "rep":
            if a[1] != b[1]:
                return "%s: repetition count differs: write %s, read %s" % (here, a[1], b[1])
            d = first_diff(list(a[2]), list(b[2]), here + ".rep")
            if d:
                return d
        elif a != b and a[0] not in ("f", "res", "b", "c", "rep"):
            return "%s: write %s vs read %s" % (here, a, b)
    return None


def token_ids(toks, acc=None):
    """effect ids carried by read-side tokens"""
    if acc is None:
        acc = set()
    for t in toks:
        k = t[0]
        if k == "a" and len(t) > 3:
            acc.add(t[3])
        elif k == "b" and len(t) > 2:
            acc.add(t[2])
        elif k == "c" and len(t) > 3:
            acc.add(t[3])
        elif k == "rep":
            token_ids(t[2], acc)
        elif k == "loop":
            token_ids(t[1], acc)
        elif k == "alt?":
            token_ids(t[2], acc)
            token_ids(t[3], acc)
        elif k == "match":
            for _, b in t[2]:
                token_ids(b, acc)
        elif k == "inline":
            token_ids(t[4], acc)
    return acc
