"""P7: loop inventory over MIR, joined with the abstract-interpretation states (bounds, provenance) and with the
stream-effect summaries (which functions must consume input)."""
import re

from mir import body_of, callee_path, op_place, place_key, strip_generics

READ_TRAITS = ("std::io::Read", "byteorder::io::ReadBytesExt")
SEEK_TRAIT = "std::io::Seek"

_must_read = {}


def consuming_call(t):
    """a stream call that transfers at least one byte whenever it succeeds: read_exact (whole transfer, fails at end of input)
    and the byteorder readers built on it.  `Read::read`, `take`, `bytes`, `read_to_end` may succeed without transferring
    anything (end of input), so a loop that advances only through them has no progress argument."""
    c = t["callee"]
    if c.get("trait") == "byteorder::io::ReadBytesExt":
        return True
    if c.get("trait") == "std::io::Read":
        return strip_generics(c.get("path") or "").split("::")[-1] == "read_exact"
    return False


def ok_blocks(body):
    """blocks that build the success value `_0 = Ok(..)` / `_0 = Some(..)`; all return blocks when the function does
    not return Result/Option"""
    out = []
    for b in body.reach:
        for s in body.stmts(b):
            if s["k"] == "assign" and s["place"]["l"] == 0 and not s["place"]["p"] and s["rv"]["k"] == "agg" and s["rv"].get("variant") in ("Ok", "Some"):
                out.append(b)
    if not out:
        # `_0` may be produced by a call (tail call of another Result-returning function): use those blocks
        for b, t in body.calls():
            if t["dest"]["l"] == 0 and not t["dest"]["p"] and not (t["callee"].get("path") or "").endswith("from_residual"):
                out.append(b)
    if not out:
        out = body.return_blocks()
    return out


def must_read(fx, fid, depth=0):
    """does every successful execution of fid read at least one byte from the stream?"""
    if fid in _must_read:
        return _must_read[fid]
    _must_read[fid] = False      # recursion guard
    fn = fx.fns.get(fid)
    body = body_of(fn) if fn else None
    if body is None or depth > 12:
        return False
    readers = []
    for b, t in body.calls():
        c = t["callee"]
        if consuming_call(t):
            readers.append(b)
        else:
            p = callee_path(c)
            if p in fx.fns and p != fid and must_read(fx, p, depth + 1):
                readers.append(b)
    oks = ok_blocks(body)
    res = bool(readers) and bool(oks) and all(any(body.dominates(r, o) for r in readers) for o in oks)
    _must_read[fid] = res
    return res


def iter_kind(full):
    """classify the iterator type of an Iterator::next call from its fully-qualified rendering"""
    m = re.match(r"<(.+) as core::iter::traits::iterator::Iterator>::next$", full or "")
    if not m:
        return None, None
    t = m.group(1)
    # a lazily mapped iterator is driven by the iterator it wraps: Map<I, F>::next calls I::next once and F once
    mm = re.match(r"core::iter::adapters::map::Map<(.+), \{closure@[^}]*\}>$", t)
    if mm:
        t = mm.group(1)
    if t.startswith("core::ops::range::RangeInclusive<"):
        return "range_incl", t
    if t.startswith("core::ops::range::Range<"):
        return "range", t
    return "collection", t


class LoopInfo:
    def __init__(self, fid, body, L):
        self.fid = fid
        self.body = body
        self.head = L["head"]
        self.latches = L["latches"]
        self.blocks = L["body"]
        self.exits = L["exits"]
        self.kind = None
        self.detail = {}
        self.nested = []      # inner loops (by head)
        self.line = None

    def own_blocks(self, all_loops):
        """blocks of this loop that are not inside a nested loop"""
        inner = set()
        for o in all_loops:
            if o is not self and o.blocks < self.blocks:
                inner |= o.blocks
        return self.blocks - inner


def inventory(fx, fid):
    fn = fx.fns[fid]
    body = body_of(fn)
    if body is None:
        return []
    ls = [LoopInfo(fid, body, L) for L in body.loops()]
    for l in ls:
        lines = [body.term(b).get("line") for b in l.blocks if body.term(b).get("line")]
        l.line = min(lines) if lines else None
        l.nested = [o for o in ls if o is not l and o.blocks < l.blocks]
    return ls


def driver_next_call(body, loop, all_loops):
    """the Iterator::next call that drives a `for` loop: in the loop's own blocks, dominating every latch"""
    own = loop.own_blocks(all_loops)
    for b in sorted(own):
        t = body.term(b)
        if t["k"] == "call" and strip_generics(t["callee"].get("path") or "") == "core::iter::traits::iterator::Iterator::next":
            if all(body.dominates(b, la) for la in loop.latches):
                return b, t
    return None, None


def calls_in(body, blocks):
    for b in sorted(blocks):
        t = body.term(b)
        if t["k"] == "call":
            yield b, t


def mapped_closure(fx, fid, full):
    """closure function of a `Map<I, {closure@file:line:..}>` iterator driving a loop in function fid (matched by file and line)"""
    m = re.search(r"map::Map<.+, \{closure@([^:}]+):(\d+):", full or "")
    if not m:
        return None
    cands = [k for k in fx.fns if k.startswith(fid + "::{closure") and (fx.fns[k].get("span") or {}).get("file") == m.group(1) and (fx.fns[k].get("span") or {}).get("line") == int(m.group(2))]
    return cands[0] if len(cands) == 1 else None
