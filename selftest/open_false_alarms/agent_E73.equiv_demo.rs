use std::io::{self, Cursor, Read, Seek, SeekFrom, Write};
use std::str::FromStr;

use mp4::{
    box_start, skip_box, skip_bytes, skip_bytes_to, write_zeros, BoxHeader, BoxType, Error, FourCC,
    HEADER_SIZE,
};

/// Reader that records the length of every read request.
struct LoggingReader<'a> {
    data: &'a [u8],
    reads: Vec<usize>,
}

impl Read for LoggingReader<'_> {
    fn read(&mut self, buf: &mut [u8]) -> io::Result<usize> {
        self.reads.push(buf.len());
        self.data.read(buf)
    }
}

/// Writer that records every chunk and fails once `budget` bytes were accepted.
struct LoggingWriter {
    chunks: Vec<Vec<u8>>,
    budget: usize,
}

impl Write for LoggingWriter {
    fn write(&mut self, buf: &[u8]) -> io::Result<usize> {
        if self.budget < buf.len() {
            return Err(io::Error::new(io::ErrorKind::Other, "budget exhausted"));
        }
        self.budget -= buf.len();
        self.chunks.push(buf.to_vec());
        Ok(buf.len())
    }
    fn flush(&mut self) -> io::Result<()> {
        Ok(())
    }
}

fn read_header(bytes: &[u8]) -> (mp4::Result<BoxHeader>, usize) {
    let mut slice = bytes;
    let res = BoxHeader::read(&mut slice);
    (res, bytes.len() - slice.len())
}

#[test]
fn header_read_small_sizes() {
    let (h, used) = read_header(&[0, 0, 0, 24, b'f', b't', b'y', b'p', 9, 9]);
    let h = h.unwrap();
    assert_eq!(used, 8);
    assert_eq!(h.size, 24);
    assert!(h.name == BoxType::FtypBox);

    // size 0 ("to end of file") and sizes below the header size are passed through.
    for (raw, want) in [(0u32, 0u64), (2, 2), (7, 7), (8, 8), (u32::MAX, u32::MAX as u64)] {
        let mut bytes = raw.to_be_bytes().to_vec();
        bytes.extend_from_slice(b"zzzz");
        let (h, used) = read_header(&bytes);
        let h = h.unwrap();
        assert_eq!(used, 8);
        assert_eq!(h.size, want);
        assert!(h.name == BoxType::UnknownBox(0x7a7a7a7a));
    }
}

#[test]
fn header_read_largesize() {
    let mk = |large: u64| {
        let mut v = vec![0, 0, 0, 1, b'm', b'd', b'a', b't'];
        v.extend_from_slice(&large.to_be_bytes());
        v
    };
    for (large, want) in [
        (0u64, Some(0u64)),
        (1, None),
        (8, None),
        (15, None),
        (16, Some(8)),
        (17, Some(9)),
        (1 << 32, Some((1 << 32) - 8)),
        (u64::MAX, Some(u64::MAX - 8)),
    ] {
        let (res, used) = read_header(&mk(large));
        assert_eq!(used, 16, "largesize {large}");
        match want {
            Some(size) => {
                let h = res.unwrap();
                assert_eq!(h.size, size);
                assert!(h.name == BoxType::MdatBox);
            }
            None => match res {
                Err(Error::InvalidData(msg)) => assert_eq!(msg, "64-bit box size too small"),
                other => panic!("unexpected {:?}", other.map(|h| h.size)),
            },
        }
    }
}

#[test]
fn header_read_truncated_and_read_pattern() {
    for len in 0..8 {
        let bytes = [0u8, 0, 0, 1, b'm', b'o', b'o', b'v'];
        let (res, _) = read_header(&bytes[..len]);
        match res {
            Err(Error::IoError(e)) => assert_eq!(e.kind(), io::ErrorKind::UnexpectedEof),
            _ => panic!("expected io error"),
        }
    }
    // size == 1 but largesize truncated
    for extra in 0..8 {
        let mut bytes = vec![0u8, 0, 0, 1, b'm', b'o', b'o', b'v'];
        bytes.extend(std::iter::repeat(0xffu8).take(extra));
        match read_header(&bytes).0 {
            Err(Error::IoError(e)) => assert_eq!(e.kind(), io::ErrorKind::UnexpectedEof),
            _ => panic!("expected io error"),
        }
    }

    let data = [0u8, 0, 0, 1, b'm', b'o', b'o', b'v', 0, 0, 0, 0, 0, 0, 0, 32, 1, 2, 3];
    let mut r = LoggingReader {
        data: &data,
        reads: vec![],
    };
    let h = BoxHeader::read(&mut r).unwrap();
    assert_eq!(h.size, 24);
    assert_eq!(r.reads, vec![8, 8]);
    assert_eq!(r.data, &[1, 2, 3]);

    let data = [0u8, 0, 0, 9, b'm', b'o', b'o', b'v', 0xaa];
    let mut r = LoggingReader {
        data: &data,
        reads: vec![],
    };
    let h = BoxHeader::read(&mut r).unwrap();
    assert_eq!(h.size, 9);
    assert_eq!(r.reads, vec![8]);
}

#[test]
fn header_write() {
    let mut w = LoggingWriter {
        chunks: vec![],
        budget: 100,
    };
    assert_eq!(BoxHeader::new(BoxType::MoovBox, 0).write(&mut w).unwrap(), 8);
    assert_eq!(w.chunks, vec![vec![0, 0, 0, 0], b"moov".to_vec()]);

    let mut w = LoggingWriter {
        chunks: vec![],
        budget: 100,
    };
    let n = BoxHeader::new(BoxType::UnknownBox(0x01020304), u32::MAX as u64)
        .write(&mut w)
        .unwrap();
    assert_eq!(n, 8);
    assert_eq!(w.chunks, vec![vec![0xff; 4], vec![1, 2, 3, 4]]);

    for size in [u32::MAX as u64 + 1, u64::MAX] {
        let mut w = LoggingWriter {
            chunks: vec![],
            budget: 100,
        };
        let n = BoxHeader::new(BoxType::MdatBox, size).write(&mut w).unwrap();
        assert_eq!(n, 16);
        assert_eq!(
            w.chunks,
            vec![vec![0, 0, 0, 1], b"mdat".to_vec(), size.to_be_bytes().to_vec()]
        );
    }

    // Failure part-way: what was written before the error stays the same.
    for (budget, chunks) in [(0usize, 0usize), (4, 1), (8, 2), (15, 2)] {
        let mut w = LoggingWriter {
            chunks: vec![],
            budget,
        };
        let res = BoxHeader::new(BoxType::MdatBox, 1 << 40).write(&mut w);
        assert!(matches!(res, Err(Error::IoError(_))));
        assert_eq!(w.chunks.len(), chunks);
    }

    // Round trip, including the asymmetry for large sizes (largesize - 8 on read).
    let mut buf = Vec::new();
    BoxHeader::new(BoxType::FreeBox, 1 << 33).write(&mut buf).unwrap();
    let h = BoxHeader::read(&mut &buf[..]).unwrap();
    assert_eq!(h.size, (1 << 33) - 8);
    assert!(h.name == BoxType::FreeBox);
}

#[test]
fn seeking_helpers() {
    let mut c = Cursor::new(vec![0u8; 64]);
    c.seek(SeekFrom::Start(20)).unwrap();
    assert_eq!(box_start(&mut c).unwrap(), 12);
    assert_eq!(c.position(), 20);

    skip_box(&mut c, 30).unwrap();
    assert_eq!(c.position(), 42);
    // skipping past the end is allowed by Cursor
    skip_box(&mut c, 1000).unwrap();
    assert_eq!(c.position(), 42 - HEADER_SIZE + 1000);
    // size 0: back to just after the box start
    c.set_position(8);
    skip_box(&mut c, 0).unwrap();
    assert_eq!(c.position(), 0);

    skip_bytes_to(&mut c, 17).unwrap();
    assert_eq!(c.position(), 17);
    skip_bytes(&mut c, 3).unwrap();
    assert_eq!(c.position(), 20);
    // u64 -> i64 reinterpretation: a "negative" skip moves backwards ...
    skip_bytes(&mut c, u64::MAX).unwrap();
    assert_eq!(c.position(), 19);
    // ... and seeking before the start is an error that leaves the position alone.
    assert!(matches!(
        skip_bytes(&mut c, (-20i64) as u64),
        Err(Error::IoError(_))
    ));
    assert_eq!(c.position(), 19);
}

#[test]
fn zeros() {
    let mut w = LoggingWriter {
        chunks: vec![],
        budget: 100,
    };
    write_zeros(&mut w, 0).unwrap();
    assert!(w.chunks.is_empty());
    write_zeros(&mut w, 5).unwrap();
    assert_eq!(w.chunks, vec![vec![0u8]; 5]);

    let mut w = LoggingWriter {
        chunks: vec![],
        budget: 3,
    };
    assert!(matches!(write_zeros(&mut w, 10), Err(Error::IoError(_))));
    assert_eq!(w.chunks, vec![vec![0u8]; 3]);
}

#[test]
fn fourcc_conversions() {
    assert_eq!(FourCC::from_str("ftyp").unwrap().value, *b"ftyp");
    for bad in ["", "abc", "abcde", "\u{e9}a", "\u{20ac}", "\u{20ac}ab"] {
        match FourCC::from_str(bad) {
            Err(Error::InvalidData(msg)) => {
                assert_eq!(msg, "expected exactly four bytes in string")
            }
            _ => panic!("expected error for {:?}", bad),
        }
    }
    // four bytes, two chars
    assert_eq!(FourCC::from_str("\u{e9}\u{e9}").unwrap().value, [0xc3, 0xa9, 0xc3, 0xa9]);

    let f = FourCC::from(0xa96e616du32);
    assert_eq!(f.value, [0xa9, b'n', b'a', b'm']);
    assert_eq!(u32::from(f), 0xa96e616d);
    assert_eq!(u32::from(&f), 0xa96e616d);
    assert_eq!(format!("{f:?}"), "\u{fffd}nam / 0xA96E616D");

    assert_eq!(FourCC::from(BoxType::MoovBox).value, *b"moov");
    assert_eq!(FourCC::from(BoxType::UnknownBox(0)).value, [0; 4]);
    assert_eq!(FourCC::from(BoxType::UnknownBox(u32::MAX)).value, [0xff; 4]);
    assert_eq!(format!("{}", BoxType::Co64Box), "co64");
    assert_eq!(format!("{:?}", BoxType::UrlBox), "url ");
    assert!(BoxType::from(0x636F3634) == BoxType::Co64Box);
    assert_eq!(u32::from(BoxType::UnknownBox(7)), 7);
}

#[test]
fn sample_file_still_parses() {
    let bytes = std::fs::read("tests/samples/minimal.mp4").unwrap();
    let size = bytes.len() as u64;
    let reader = mp4::Mp4Reader::read_header(Cursor::new(bytes), size).unwrap();
    assert_eq!(reader.size(), size);
    assert!(!reader.tracks().is_empty());
    assert!(reader.ftyp.major_brand == FourCC::from_str("isom").unwrap()
        || reader.ftyp.major_brand.value.len() == 4);
}
