//! Lookups on fragmented tracks (moof/traf/trun): sample count, size, offset, time,
//! rendering offset and sync flag, through the public API only.

use std::io::Cursor;

use mp4::{
    BoxType, Bytes, Error, Mp4Reader, Mp4Sample, Mp4Track, TfdtBox, TfhdBox, TrafBox, TrakBox,
    TrunBox,
};

const TRACK_ID: u32 = 1;

const TFHD_BASE_DATA_OFFSET: u32 = 0x01;
const TFHD_DEFAULT_SAMPLE_DURATION: u32 = 0x08;

const TRUN_DATA_OFFSET: u32 = 0x01;
const TRUN_SAMPLE_DURATION: u32 = 0x100;
const TRUN_SAMPLE_SIZE: u32 = 0x200;
const TRUN_SAMPLE_CTS: u32 = 0x800;

// ---------------------------------------------------------------------------------------
// byte-level builders

fn mp4_box(name: &[u8; 4], payload: &[u8]) -> Vec<u8> {
    let mut out = Vec::new();
    out.extend_from_slice(&(payload.len() as u32 + 8).to_be_bytes());
    out.extend_from_slice(name);
    out.extend_from_slice(payload);
    out
}

fn full_box(name: &[u8; 4], version: u8, flags: u32, payload: &[u8]) -> Vec<u8> {
    let mut body = vec![version];
    body.extend_from_slice(&flags.to_be_bytes()[1..]);
    body.extend_from_slice(payload);
    mp4_box(name, &body)
}

fn tfhd(base_data_offset: Option<u64>, default_sample_duration: Option<u32>) -> Vec<u8> {
    let mut flags = 0;
    let mut payload = TRACK_ID.to_be_bytes().to_vec();
    if let Some(offset) = base_data_offset {
        flags |= TFHD_BASE_DATA_OFFSET;
        payload.extend_from_slice(&offset.to_be_bytes());
    }
    if let Some(duration) = default_sample_duration {
        flags |= TFHD_DEFAULT_SAMPLE_DURATION;
        payload.extend_from_slice(&duration.to_be_bytes());
    }
    full_box(b"tfhd", 0, flags, &payload)
}

fn tfdt_v0(time: u32) -> Vec<u8> {
    full_box(b"tfdt", 0, 0, &time.to_be_bytes())
}

fn tfdt_v1(time: u64) -> Vec<u8> {
    full_box(b"tfdt", 1, 0, &time.to_be_bytes())
}

/// `per_sample`: one row per sample, holding the fields selected by `flags` in file order.
fn trun(flags: u32, sample_count: u32, data_offset: Option<i32>, per_sample: &[&[u32]]) -> Vec<u8> {
    let mut payload = sample_count.to_be_bytes().to_vec();
    if let Some(offset) = data_offset {
        assert!(flags & TRUN_DATA_OFFSET != 0);
        payload.extend_from_slice(&offset.to_be_bytes());
    }
    for row in per_sample {
        for value in row.iter() {
            payload.extend_from_slice(&value.to_be_bytes());
        }
    }
    full_box(b"trun", 0, flags, &payload)
}

fn moof(sequence: u32, traf_children: &[Vec<u8>]) -> Vec<u8> {
    let mut payload = full_box(b"mfhd", 0, 0, &sequence.to_be_bytes());
    payload.extend_from_slice(&mp4_box(b"traf", &traf_children.concat()));
    mp4_box(b"moof", &payload)
}

/// The init segment of the repository's samples, with the trex default sample duration set.
fn init_segment(trex_default_sample_duration: u32) -> Vec<u8> {
    let mut init = std::fs::read("tests/samples/minimal_init.mp4").unwrap();
    assert_eq!(&init[664..668], b"trex");
    init[680..684].copy_from_slice(&trex_default_sample_duration.to_be_bytes());
    init
}

fn open(bytes: Vec<u8>) -> Mp4Reader<Cursor<Vec<u8>>> {
    let size = bytes.len() as u64;
    Mp4Reader::read_header(Cursor::new(bytes), size).unwrap()
}

fn sample(
    start_time: u64,
    duration: u32,
    rendering_offset: i32,
    is_sync: bool,
    bytes: &[u8],
) -> Mp4Sample {
    Mp4Sample {
        start_time,
        duration,
        rendering_offset,
        is_sync,
        bytes: Bytes::copy_from_slice(bytes),
    }
}

// ---------------------------------------------------------------------------------------
// a file with four fragments, read through Mp4Reader

struct Fragmented {
    bytes: Vec<u8>,
    moof_offsets: [u64; 4],
    /// absolute offset used as base_data_offset by the third fragment
    third_data: u64,
}

fn four_fragments() -> Fragmented {
    let mut bytes = init_segment(1000);

    // 1: no tfdt, no default duration in tfhd; sizes and composition offsets in the trun
    let first_at = bytes.len() as u64;
    let build_first = |data_offset: i32| {
        moof(
            1,
            &[
                tfhd(None, None),
                trun(
                    TRUN_DATA_OFFSET | TRUN_SAMPLE_SIZE | TRUN_SAMPLE_CTS,
                    4,
                    Some(data_offset),
                    &[&[4, 0], &[5, 10], &[6, 0xFFFF_FFFE], &[1, 7]],
                ),
            ],
        )
    };
    let first_len = build_first(0).len() as i32;
    bytes.extend_from_slice(&build_first(first_len + 8));
    bytes.extend_from_slice(&mp4_box(b"mdat", b"aaaabbbbbccccccd"));

    // 2: a traf without trun: holds no samples but counts as a fragment
    let second_at = bytes.len() as u64;
    bytes.extend_from_slice(&moof(2, &[tfhd(None, Some(77))]));

    // 3: absolute base_data_offset, default duration in tfhd, 64-bit tfdt, no data_offset
    let third_at = bytes.len() as u64;
    let build_third = |base: u64| {
        moof(
            3,
            &[
                tfhd(Some(base), Some(300)),
                tfdt_v1(5000),
                trun(TRUN_SAMPLE_SIZE, 2, None, &[&[7], &[8]]),
            ],
        )
    };
    let third_data = third_at + build_third(0).len() as u64 + 8;
    bytes.extend_from_slice(&build_third(third_data));
    bytes.extend_from_slice(&mp4_box(b"mdat", b"eeeeeeeffffffff"));

    // 4: per-sample durations; mdat comes first, so data_offset is negative
    bytes.extend_from_slice(&mp4_box(b"mdat", b"ggghh"));
    let fourth_at = bytes.len() as u64;
    bytes.extend_from_slice(&moof(
        4,
        &[
            tfhd(None, Some(55)),
            tfdt_v0(9000),
            trun(
                TRUN_DATA_OFFSET | TRUN_SAMPLE_DURATION | TRUN_SAMPLE_SIZE,
                2,
                Some(-5),
                &[&[11, 3], &[22, 2]],
            ),
        ],
    ));

    Fragmented {
        bytes,
        moof_offsets: [first_at, second_at, third_at, fourth_at],
        third_data,
    }
}

#[test]
fn fragmented_file_lookups() {
    let file = four_fragments();
    let [first_at, _, _, fourth_at] = file.moof_offsets;
    let third_data = file.third_data;
    let mut mp4 = open(file.bytes);

    assert!(mp4.is_fragmented());
    {
        let track = &mp4.tracks()[&TRACK_ID];
        assert_eq!(track.trafs.len(), 4);
        assert_eq!(track.moof_offsets, file.moof_offsets.to_vec());
        assert_eq!(track.default_sample_duration, 1000);
        assert_eq!(track.sample_count(), 8);
    }
    assert_eq!(mp4.sample_count(TRACK_ID).unwrap(), 8);

    // offsets
    let first_data = first_at
        + (mp4.tracks()[&TRACK_ID].trafs[0]
            .trun
            .as_ref()
            .unwrap()
            .data_offset
            .unwrap() as u64);
    let expected_offsets = [
        first_data,
        first_data + 4,
        first_data + 9,
        first_data + 15,
        third_data,
        third_data + 7,
        fourth_at - 5,
        fourth_at - 2,
    ];
    for (i, expected) in expected_offsets.iter().enumerate() {
        assert_eq!(
            mp4.sample_offset(TRACK_ID, i as u32 + 1).unwrap(),
            *expected,
            "sample {}",
            i + 1
        );
    }

    // 8 samples in 4 fragments: sample 1 and every second sample are reported as sync
    let expected = [
        sample(0, 1000, 0, true, b"aaaa"),
        sample(1000, 1000, 10, true, b"bbbbb"),
        sample(2000, 1000, -2, false, b"cccccc"),
        sample(3000, 1000, 7, true, b"d"),
        sample(5000, 300, 0, false, b"eeeeeee"),
        sample(5300, 300, 0, true, b"ffffffff"),
        sample(9000, 11, 0, false, b"ggg"),
        sample(9011, 22, 0, true, b"hh"),
    ];
    for (i, expected) in expected.iter().enumerate() {
        let got = mp4.read_sample(TRACK_ID, i as u32 + 1).unwrap().unwrap();
        assert_eq!(&got, expected, "sample {}", i + 1);
    }

    // outside the fragments
    for sample_id in [0, 9, 10, u32::MAX] {
        assert!(matches!(
            mp4.sample_offset(TRACK_ID, sample_id),
            Err(Error::BoxInTrafNotFound(TRACK_ID, BoxType::TrafBox))
        ));
        assert!(matches!(
            mp4.read_sample(TRACK_ID, sample_id),
            Err(Error::BoxInTrafNotFound(TRACK_ID, BoxType::TrafBox))
        ));
    }
}

#[test]
fn fragment_without_tfdt_after_the_first_counts_from_the_start() {
    // second fragment has neither tfdt nor durations: time is (sample_id - 1) * default
    let mut bytes = init_segment(40);
    let build = |seq: u32, data_offset: i32, sizes: &[&[u32]]| {
        moof(
            seq,
            &[
                tfhd(None, None),
                trun(
                    TRUN_DATA_OFFSET | TRUN_SAMPLE_SIZE,
                    sizes.len() as u32,
                    Some(data_offset),
                    sizes,
                ),
            ],
        )
    };
    let len = build(1, 0, &[&[1], &[2]]).len() as i32;
    bytes.extend_from_slice(&build(1, len + 8, &[&[1], &[2]]));
    bytes.extend_from_slice(&mp4_box(b"mdat", b"xyy"));
    let len = build(2, 0, &[&[2]]).len() as i32;
    bytes.extend_from_slice(&build(2, len + 8, &[&[2]]));
    bytes.extend_from_slice(&mp4_box(b"mdat", b"zz"));

    let mut mp4 = open(bytes);
    assert_eq!(mp4.sample_count(TRACK_ID).unwrap(), 3);
    // 3 samples / 2 fragments = 1: every sample is reported as sync
    assert_eq!(
        mp4.read_sample(TRACK_ID, 1).unwrap().unwrap(),
        sample(0, 40, 0, true, b"x")
    );
    assert_eq!(
        mp4.read_sample(TRACK_ID, 2).unwrap().unwrap(),
        sample(40, 40, 0, true, b"yy")
    );
    assert_eq!(
        mp4.read_sample(TRACK_ID, 3).unwrap().unwrap(),
        sample(80, 40, 0, true, b"zz")
    );
}

#[test]
fn start_time_overflow_is_an_error() {
    let mut bytes = init_segment(0);
    let build = |data_offset: i32| {
        moof(
            1,
            &[
                tfhd(None, None),
                tfdt_v1(u64::MAX - 10),
                trun(
                    TRUN_DATA_OFFSET | TRUN_SAMPLE_DURATION | TRUN_SAMPLE_SIZE,
                    3,
                    Some(data_offset),
                    &[&[10, 1], &[1, 1], &[5, 1]],
                ),
            ],
        )
    };
    let len = build(0).len() as i32;
    bytes.extend_from_slice(&build(len + 8));
    bytes.extend_from_slice(&mp4_box(b"mdat", b"pqr"));
    // a second fragment relying on the default duration
    let build = |data_offset: i32| {
        moof(
            2,
            &[
                tfhd(None, Some(6)),
                tfdt_v1(u64::MAX - 10),
                trun(
                    TRUN_DATA_OFFSET | TRUN_SAMPLE_SIZE,
                    3,
                    Some(data_offset),
                    &[&[1], &[1], &[1]],
                ),
            ],
        )
    };
    let len = build(0).len() as i32;
    bytes.extend_from_slice(&build(len + 8));
    bytes.extend_from_slice(&mp4_box(b"mdat", b"stu"));

    let mut mp4 = open(bytes);
    // 6 samples / 2 fragments = 3
    assert_eq!(
        mp4.read_sample(TRACK_ID, 1).unwrap().unwrap(),
        sample(u64::MAX - 10, 10, 0, true, b"p")
    );
    assert_eq!(
        mp4.read_sample(TRACK_ID, 2).unwrap().unwrap(),
        sample(u64::MAX, 1, 0, false, b"q")
    );
    assert!(matches!(
        mp4.read_sample(TRACK_ID, 3),
        Err(Error::InvalidData(
            "attempt to calculate sample start time with overflow"
        ))
    ));
    assert_eq!(
        mp4.read_sample(TRACK_ID, 4).unwrap().unwrap(),
        sample(u64::MAX - 10, 6, 0, false, b"s")
    );
    assert_eq!(
        mp4.read_sample(TRACK_ID, 5).unwrap().unwrap(),
        sample(u64::MAX - 4, 6, 0, false, b"t")
    );
    assert!(matches!(
        mp4.read_sample(TRACK_ID, 6),
        Err(Error::InvalidData(
            "attempt to calculate sample start time with overflow"
        ))
    ));
}

#[test]
fn trun_without_sizes() {
    // sample_count is not backed by per-sample data: the samples exist but have no size
    let mut bytes = init_segment(0);
    let first_at = bytes.len() as u64;
    bytes.extend_from_slice(&moof(1, &[tfhd(None, None), trun(0, u32::MAX, None, &[])]));
    bytes.extend_from_slice(&moof(2, &[tfhd(None, None), trun(0, u32::MAX, None, &[])]));

    let mut mp4 = open(bytes);
    // the sum saturates
    assert_eq!(mp4.sample_count(TRACK_ID).unwrap(), u32::MAX);
    assert_eq!(mp4.sample_offset(TRACK_ID, 1).unwrap(), first_at);
    assert!(matches!(
        mp4.sample_offset(TRACK_ID, 2),
        Err(Error::EntryInTrunNotFound(TRACK_ID, BoxType::TrunBox, 1))
    ));
    assert!(matches!(
        mp4.sample_offset(TRACK_ID, u32::MAX),
        Err(Error::EntryInTrunNotFound(TRACK_ID, BoxType::TrunBox, 1))
    ));
    assert!(matches!(
        mp4.read_sample(TRACK_ID, 1),
        Err(Error::EntryInTrunNotFound(TRACK_ID, BoxType::TrunBox, 1))
    ));
    assert!(matches!(
        mp4.read_sample(TRACK_ID, 3),
        Err(Error::EntryInTrunNotFound(TRACK_ID, BoxType::TrunBox, 1))
    ));
    assert!(matches!(
        mp4.sample_offset(TRACK_ID, 0),
        Err(Error::BoxInTrafNotFound(TRACK_ID, BoxType::TrafBox))
    ));
}

// ---------------------------------------------------------------------------------------
// tracks assembled from the public box structs

fn traf_with(base_data_offset: Option<u64>, trun: Option<TrunBox>) -> TrafBox {
    TrafBox {
        tfhd: TfhdBox {
            track_id: 7,
            base_data_offset,
            ..Default::default()
        },
        tfdt: Some(TfdtBox::default()),
        trun,
    }
}

fn run(sample_count: u32, data_offset: Option<i32>, sample_sizes: &[u32]) -> TrunBox {
    TrunBox {
        sample_count,
        data_offset,
        sample_sizes: sample_sizes.to_vec(),
        ..Default::default()
    }
}

fn track(trafs: Vec<TrafBox>, moof_offsets: Vec<u64>) -> Mp4Track {
    let mut trak = TrakBox::default();
    trak.tkhd.track_id = 7;
    trak.mdia.minf.stbl.stsz.sample_count = 1234;
    Mp4Track {
        trak,
        trafs,
        moof_offsets,
        default_sample_duration: 0,
    }
}

#[test]
fn sample_count_of_assembled_tracks() {
    assert_eq!(track(vec![], vec![]).sample_count(), 1234);
    assert_eq!(
        track(vec![traf_with(None, None)], vec![0]).sample_count(),
        0
    );
    let trafs = vec![
        traf_with(None, Some(run(3, None, &[]))),
        traf_with(None, None),
        traf_with(None, Some(run(0, None, &[]))),
        traf_with(None, Some(run(39, None, &[]))),
    ];
    assert_eq!(track(trafs, vec![0; 4]).sample_count(), 42);
    let trafs = vec![
        traf_with(None, Some(run(u32::MAX - 1, None, &[]))),
        traf_with(None, Some(run(1, None, &[]))),
        traf_with(None, Some(run(5, None, &[]))),
    ];
    assert_eq!(track(trafs, vec![0; 3]).sample_count(), u32::MAX);
}

#[test]
fn sample_offset_of_assembled_tracks() {
    let trafs = vec![
        // run longer than its size table
        traf_with(None, Some(run(4, Some(16), &[10, 20]))),
        traf_with(None, None),
        // empty run
        traf_with(Some(5), Some(run(0, Some(1), &[1, 1, 1]))),
        // size table longer than the run; base_data_offset wins over the moof offset
        traf_with(
            Some(1 << 40),
            Some(run(2, Some(-40), &[u32::MAX, u32::MAX, 9])),
        ),
        // no data_offset
        traf_with(None, Some(run(1, None, &[]))),
    ];
    let track = track(trafs, vec![100, 200, 300, 400, 500]);
    assert_eq!(track.sample_count(), 7);

    assert_eq!(track.sample_offset(1).unwrap(), 116);
    assert_eq!(track.sample_offset(2).unwrap(), 126);
    assert_eq!(track.sample_offset(3).unwrap(), 146);
    // the third sample of the run has no size: the sample after it cannot be located
    assert!(matches!(
        track.sample_offset(4),
        Err(Error::EntryInTrunNotFound(7, BoxType::TrunBox, 3))
    ));
    assert_eq!(track.sample_offset(5).unwrap(), (1 << 40) - 40);
    assert_eq!(
        track.sample_offset(6).unwrap(),
        (1 << 40) - 40 + u32::MAX as u64
    );
    assert_eq!(track.sample_offset(7).unwrap(), 500);
    assert!(matches!(
        track.sample_offset(8),
        Err(Error::BoxInTrafNotFound(7, BoxType::TrafBox))
    ));
    assert!(matches!(
        track.sample_offset(0),
        Err(Error::BoxInTrafNotFound(7, BoxType::TrafBox))
    ));
}

#[test]
fn sample_offset_overflow_is_an_error() {
    let trafs = vec![
        traf_with(Some(u64::MAX - 2), Some(run(1, Some(3), &[1]))),
        traf_with(None, Some(run(1, Some(-11), &[1]))),
        traf_with(Some(u64::MAX - 2), Some(run(1, Some(2), &[1]))),
        traf_with(Some(u64::MAX - 5), Some(run(4, None, &[4, 1, 1]))),
        // the overflow is reported before the missing size
        traf_with(Some(u64::MAX), Some(run(3, Some(0), &[1]))),
    ];
    let track = track(trafs, vec![10; 5]);

    for sample_id in [1, 2] {
        assert!(matches!(
            track.sample_offset(sample_id),
            Err(Error::InvalidData(
                "attempt to calculate trun sample offset with overflow"
            ))
        ));
    }
    assert_eq!(track.sample_offset(3).unwrap(), u64::MAX);
    assert_eq!(track.sample_offset(4).unwrap(), u64::MAX - 5);
    assert_eq!(track.sample_offset(5).unwrap(), u64::MAX - 1);
    assert_eq!(track.sample_offset(6).unwrap(), u64::MAX);
    assert!(matches!(
        track.sample_offset(7),
        Err(Error::InvalidData(
            "attempt to calculate trun entry sample offset with overflow"
        ))
    ));
    assert_eq!(track.sample_offset(8).unwrap(), u64::MAX);
    assert!(matches!(
        track.sample_offset(9),
        Err(Error::InvalidData(
            "attempt to calculate trun entry sample offset with overflow"
        ))
    ));
    assert!(matches!(
        track.sample_offset(10),
        Err(Error::InvalidData(
            "attempt to calculate trun entry sample offset with overflow"
        ))
    ));
}

#[test]
#[should_panic(expected = "index out of bounds: the len is 1 but the index is 1")]
fn sample_offset_needs_a_moof_offset_per_traf() {
    // indexed even though base_data_offset is present
    let trafs = vec![
        traf_with(Some(1), Some(run(1, None, &[1]))),
        traf_with(Some(2), Some(run(1, None, &[1]))),
    ];
    let track = track(trafs, vec![10]);
    assert_eq!(track.sample_offset(1).unwrap(), 1);
    let _ = track.sample_offset(2);
}
