use std::io::Cursor;
use std::panic::{catch_unwind, AssertUnwindSafe};

use mp4::{BoxHeader, BoxType, Error, Mp4Box, ReadBox, TrunBox, WriteBox};

const ALL_SAMPLE_FLAGS: u32 = TrunBox::FLAG_SAMPLE_DURATION
    | TrunBox::FLAG_SAMPLE_SIZE
    | TrunBox::FLAG_SAMPLE_FLAGS
    | TrunBox::FLAG_SAMPLE_CTS;

fn be(values: &[u32]) -> Vec<u8> {
    values.iter().flat_map(|v| v.to_be_bytes().to_vec()).collect()
}

/// Builds a trun box by hand: `declared_size` goes into the header, `payload`
/// follows the version/flags word.
fn raw_trun(declared_size: u32, version: u8, flags: u32, payload: &[u32]) -> Vec<u8> {
    let mut buf = Vec::new();
    buf.extend_from_slice(&declared_size.to_be_bytes());
    buf.extend_from_slice(b"trun");
    buf.extend_from_slice(&((u32::from(version) << 24) | flags).to_be_bytes());
    buf.extend_from_slice(&be(payload));
    buf
}

/// Parses the header like the demuxer does and hands the rest to TrunBox.
fn parse(bytes: &[u8]) -> (mp4::Result<TrunBox>, u64) {
    let mut reader = Cursor::new(bytes);
    let header = BoxHeader::read(&mut reader).unwrap();
    assert_eq!(header.name, BoxType::TrunBox);
    let res = TrunBox::read_box(&mut reader, header.size);
    (res, reader.position())
}

#[test]
fn size_for_every_flag_combination() {
    let bits = [
        TrunBox::FLAG_DATA_OFFSET,
        TrunBox::FLAG_FIRST_SAMPLE_FLAGS,
        TrunBox::FLAG_SAMPLE_DURATION,
        TrunBox::FLAG_SAMPLE_SIZE,
        TrunBox::FLAG_SAMPLE_FLAGS,
        TrunBox::FLAG_SAMPLE_CTS,
    ];
    for mask in 0u32..64 {
        let mut flags = 0x00f0_f0f2; // unrelated bits must not matter
        let mut fixed = 0u64;
        let mut per_sample = 0u64;
        for (n, bit) in bits.iter().enumerate() {
            if mask & (1 << n) != 0 {
                flags |= bit;
                if n < 2 {
                    fixed += 4;
                } else {
                    per_sample += 4;
                }
            }
        }
        for &count in &[0u32, 1, 3, u32::MAX] {
            let trun = TrunBox {
                flags,
                sample_count: count,
                ..Default::default()
            };
            let expected = 16 + fixed + per_sample * u64::from(count);
            assert_eq!(trun.get_size(), expected, "flags {:#x} count {}", flags, count);
            assert_eq!(trun.box_size(), expected);
        }
    }
}

#[test]
fn all_fields_round_trip_with_exact_bytes() {
    let src = TrunBox {
        version: 1,
        flags: ALL_SAMPLE_FLAGS | TrunBox::FLAG_DATA_OFFSET | TrunBox::FLAG_FIRST_SAMPLE_FLAGS,
        sample_count: 2,
        data_offset: Some(-8),
        first_sample_flags: Some(0x0200_0000),
        sample_durations: vec![10, 11],
        sample_sizes: vec![20, 21],
        sample_flags: vec![30, 31],
        sample_cts: vec![40, u32::MAX],
    };
    let mut buf = Vec::new();
    assert_eq!(src.write_box(&mut buf).unwrap(), 56);
    let expected = raw_trun(
        56,
        1,
        0xf05,
        &[2, (-8i32) as u32, 0x0200_0000, 10, 20, 30, 40, 11, 21, 31, u32::MAX],
    );
    assert_eq!(buf, expected);

    let (res, pos) = parse(&buf);
    assert_eq!(res.unwrap(), src);
    assert_eq!(pos, 56);
}

#[test]
fn subset_of_columns_is_interleaved_in_stream_order() {
    let src = TrunBox {
        version: 0,
        flags: TrunBox::FLAG_SAMPLE_DURATION | TrunBox::FLAG_SAMPLE_CTS,
        sample_count: 3,
        data_offset: None,
        first_sample_flags: None,
        sample_durations: vec![1, 2, 3],
        // not selected by the flags, but its length is what write_box checks
        sample_sizes: vec![7, 7, 7],
        sample_flags: vec![],
        sample_cts: vec![100, 200, 300],
    };
    let mut buf = Vec::new();
    assert_eq!(src.write_box(&mut buf).unwrap(), 40);
    assert_eq!(buf, raw_trun(40, 0, 0x900, &[3, 1, 100, 2, 200, 3, 300]));

    let (res, pos) = parse(&buf);
    let dst = res.unwrap();
    assert_eq!(pos, 40);
    assert_eq!(dst.sample_durations, vec![1, 2, 3]);
    assert_eq!(dst.sample_cts, vec![100, 200, 300]);
    assert!(dst.sample_sizes.is_empty());
    assert!(dst.sample_flags.is_empty());
    assert_eq!(dst.data_offset, None);
    assert_eq!(dst.first_sample_flags, None);
}

#[test]
fn optional_header_fields_are_read_independently() {
    // only first_sample_flags
    let bytes = raw_trun(20, 0, TrunBox::FLAG_FIRST_SAMPLE_FLAGS, &[0, 0xdead_beef]);
    let dst = parse(&bytes).0.unwrap();
    assert_eq!(dst.data_offset, None);
    assert_eq!(dst.first_sample_flags, Some(0xdead_beef));

    // only data_offset, negative
    let bytes = raw_trun(20, 0, TrunBox::FLAG_DATA_OFFSET, &[0, 0x8000_0000]);
    let dst = parse(&bytes).0.unwrap();
    assert_eq!(dst.data_offset, Some(i32::MIN));
    assert_eq!(dst.first_sample_flags, None);

    // the flag is set but the field is missing from the stream
    let bytes = raw_trun(20, 0, TrunBox::FLAG_DATA_OFFSET, &[0]);
    match parse(&bytes).0 {
        Err(Error::IoError(e)) => assert_eq!(e.kind(), std::io::ErrorKind::UnexpectedEof),
        other => panic!("unexpected {:?}", other),
    }
}

#[test]
fn sample_count_is_checked_against_the_box_size() {
    // 2 samples * 8 bytes do not fit in 16 + 4 (data offset) + 15 bytes
    let flags = TrunBox::FLAG_DATA_OFFSET | TrunBox::FLAG_SAMPLE_SIZE | TrunBox::FLAG_SAMPLE_FLAGS;
    let bytes = raw_trun(35, 0, flags, &[2, 0, 1, 2, 3, 4]);
    match parse(&bytes).0 {
        Err(Error::InvalidData(msg)) => assert_eq!(
            msg,
            "trun sample_count indicates more values than could fit in the box"
        ),
        other => panic!("unexpected {:?}", other),
    }
    // exactly fitting is fine
    let bytes = raw_trun(36, 0, flags, &[2, 0, 1, 2, 3, 4]);
    let dst = parse(&bytes).0.unwrap();
    assert_eq!(dst.sample_sizes, vec![1, 3]);
    assert_eq!(dst.sample_flags, vec![2, 4]);

    // huge count with all four columns
    let bytes = raw_trun(32, 0, ALL_SAMPLE_FLAGS, &[u32::MAX, 1, 2, 3, 4]);
    assert!(matches!(parse(&bytes).0, Err(Error::InvalidData(_))));

    // box size smaller than its own header: nothing fits
    let bytes = raw_trun(8, 0, TrunBox::FLAG_SAMPLE_SIZE, &[1, 5]);
    assert!(matches!(parse(&bytes).0, Err(Error::InvalidData(_))));
}

#[test]
fn count_without_columns_does_not_drive_a_loop() {
    let bytes = raw_trun(16, 0, 0, &[u32::MAX]);
    let (res, pos) = parse(&bytes);
    let dst = res.unwrap();
    assert_eq!(pos, 16);
    assert_eq!(dst.sample_count, u32::MAX);
    assert!(dst.sample_durations.is_empty());
    assert!(dst.sample_sizes.is_empty());
    assert!(dst.sample_flags.is_empty());
    assert!(dst.sample_cts.is_empty());

    // header-only flags behave the same
    let flags = TrunBox::FLAG_DATA_OFFSET | TrunBox::FLAG_FIRST_SAMPLE_FLAGS;
    let bytes = raw_trun(24, 0, flags, &[0x1234_5678, 9, 8]);
    let dst = parse(&bytes).0.unwrap();
    assert_eq!(dst.sample_count, 0x1234_5678);
    assert_eq!(dst.data_offset, Some(9));
    assert_eq!(dst.first_sample_flags, Some(8));
    assert!(dst.sample_sizes.is_empty());
}

#[test]
fn declared_size_larger_than_the_stream_hits_eof() {
    // the box claims room for 3 samples but the stream ends inside the second
    let flags = TrunBox::FLAG_SAMPLE_DURATION | TrunBox::FLAG_SAMPLE_SIZE;
    let bytes = raw_trun(40, 0, flags, &[3, 1, 2, 3]);
    match parse(&bytes).0 {
        Err(Error::IoError(e)) => assert_eq!(e.kind(), std::io::ErrorKind::UnexpectedEof),
        other => panic!("unexpected {:?}", other),
    }
}

#[test]
fn trailing_bytes_inside_the_box_are_skipped() {
    let bytes = raw_trun(28, 0, TrunBox::FLAG_SAMPLE_CTS, &[1, 77, 0xaaaa_aaaa, 0xbbbb_bbbb]);
    let (res, pos) = parse(&bytes);
    assert_eq!(res.unwrap().sample_cts, vec![77]);
    assert_eq!(pos, 28);
}

#[test]
fn write_rejects_a_count_out_of_sync_after_the_fixed_part() {
    let src = TrunBox {
        version: 0,
        flags: TrunBox::FLAG_SAMPLE_SIZE | TrunBox::FLAG_DATA_OFFSET,
        sample_count: 2,
        data_offset: Some(5),
        first_sample_flags: None,
        sample_sizes: vec![1],
        ..Default::default()
    };
    let mut buf = Vec::new();
    match src.write_box(&mut buf) {
        Err(Error::InvalidData(msg)) => assert_eq!(msg, "sample count out of sync"),
        other => panic!("unexpected {:?}", other),
    }
    // header, version/flags, count and data offset are already out
    assert_eq!(buf, raw_trun(28, 0, 0x201, &[2, 5]));
}

#[test]
fn write_emits_optional_fields_by_presence_not_by_flag() {
    let src = TrunBox {
        version: 0,
        flags: 0,
        sample_count: 1,
        data_offset: Some(1),
        first_sample_flags: Some(2),
        sample_durations: vec![9],
        sample_sizes: vec![9],
        sample_flags: vec![9],
        sample_cts: vec![9],
    };
    let mut buf = Vec::new();
    assert_eq!(src.write_box(&mut buf).unwrap(), 16);
    assert_eq!(buf, raw_trun(16, 0, 0, &[1, 1, 2]));
}

#[test]
fn write_panics_on_a_short_selected_column() {
    let src = TrunBox {
        version: 0,
        flags: TrunBox::FLAG_SAMPLE_SIZE | TrunBox::FLAG_SAMPLE_FLAGS,
        sample_count: 2,
        sample_sizes: vec![1, 2],
        sample_flags: vec![3],
        ..Default::default()
    };
    let mut buf = Vec::new();
    let outcome = catch_unwind(AssertUnwindSafe(|| {
        let _ = src.write_box(&mut buf);
    }));
    assert!(outcome.is_err());
    // everything up to the missing value was written
    assert_eq!(buf, raw_trun(32, 0, 0x600, &[2, 1, 3, 2]));
}

#[test]
fn sample_file_trun_round_trips() {
    let data = std::fs::read("tests/samples/minimal_fragment.m4s").unwrap();
    let at = data.windows(4).position(|w| w == b"trun").unwrap() - 4;
    let size = u32::from_be_bytes([data[at], data[at + 1], data[at + 2], data[at + 3]]) as usize;
    let original = &data[at..at + size];

    let (res, pos) = parse(original);
    let trun = res.unwrap();
    assert_eq!(pos as usize, size);
    assert_eq!(trun.version, 1);
    assert_eq!(trun.flags, 0x205);
    assert_eq!(trun.sample_count, 1);
    assert_eq!(trun.data_offset, Some(116));
    assert_eq!(trun.first_sample_flags, Some(0x0200_0000));
    assert_eq!(trun.sample_sizes, vec![751]);
    assert!(trun.sample_durations.is_empty());
    assert!(trun.sample_flags.is_empty());
    assert!(trun.sample_cts.is_empty());
    assert_eq!(trun.get_size(), 28);

    let mut buf = Vec::new();
    trun.write_box(&mut buf).unwrap();
    assert_eq!(buf, original);
}
