#!/usr/bin/env python3
"""Run every patch under selftest/mutants and selftest/equivalent (and seeded/*/patch.diff) against scratch copies of /repo.
Exit 0 when every mutant is caught by each check its header names and every equivalent edit leaves them silent."""
import concurrent.futures as cf
import glob
import io
import os
import sys
import subprocess

HERE = os.path.dirname(os.path.abspath(__file__))
sys.path.insert(0, HERE)


def one(p):
    r = subprocess.run([sys.executable, os.path.join(HERE, "mutant.py"), p], stdout=subprocess.PIPE, stderr=subprocess.STDOUT, text=True)
    return p, r.returncode == 0, r.stdout


def main():
    pats = sorted(glob.glob(os.path.join(HERE, "mutants", "*.patch")) + glob.glob(os.path.join(HERE, "equivalent", "*.patch")))
    pats += sorted(os.path.dirname(x) for x in glob.glob(os.path.join(os.path.dirname(HERE), "seeded", "*", "patch.diff")))
    only = [a for a in sys.argv[1:] if not a.startswith("-")]
    if only:
        pats = [p for p in pats if any(o in p for o in only)]
    bad = 0
    results = []
    with cf.ThreadPoolExecutor(max_workers=8) as ex:
        for p, ok, out in ex.map(one, pats):
            sys.stdout.write(out)
            bad += 0 if ok else 1
            checks = {}
            for line in out.splitlines():
                parts = line.split()
                if len(parts) >= 3 and parts[-1] in ("caught", "MISSED", "silent", "FALSE-ALARM", "caught-but-key-mismatch") and parts[-2].startswith("C"):
                    checks[parts[-2]] = parts[-1]
            kind = "equivalent" if "/equivalent/" in p else "mutant"
            results.append({"patch": os.path.relpath(p, os.path.dirname(HERE)), "kind": kind, "checks": checks, "ok": ok})
    print("%d patches, %d unexpected outcomes" % (len(pats), bad))
    if not only:
        import json
        import subprocess as sp
        tree = sp.run(["git", "-C", "/repo", "rev-parse", "--short", "HEAD"], stdout=sp.PIPE, text=True).stdout.strip()
        json.dump({"tree": tree, "patches": len(pats), "unexpected": bad, "results": results}, open(os.path.join(HERE, "results.json"), "w"), indent=1)
    return 1 if bad else 0


if __name__ == "__main__":
    sys.exit(main())
