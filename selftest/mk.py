#!/usr/bin/env python3
"""mk.py <out.patch> <kind> <properties> <expect> <what> -- reads edits from stdin as JSON list of [file, old, new]
and writes a unified diff against /repo's current tree with the self-test headers."""
import difflib, json, sys
out, kind, props, expect, what = sys.argv[1:6]
edits = json.load(sys.stdin)
chunks = []
byfile = {}
for f, old, new in edits:
    src = byfile.get(f) or open('/repo/' + f).read()
    if src.count(old) != 1:
        sys.exit("edit does not apply exactly once in %s: %r (count %d)" % (f, old[:60], src.count(old)))
    byfile[f] = src.replace(old, new)
for f, new in byfile.items():
    a = open('/repo/' + f).read().splitlines(keepends=True)
    b = new.splitlines(keepends=True)
    chunks.append(''.join(difflib.unified_diff(a, b, 'a/' + f, 'b/' + f, n=3)))
with open(out, 'w') as fh:
    fh.write("# property: %s\n# kind: %s\n" % (props, kind))
    for e in [x for x in expect.split('||') if x]:
        fh.write("# expect: %s\n" % e)
    fh.write("# what: %s\n" % what)
    fh.write(''.join(chunks))
print("wrote", out)
