#!/usr/bin/env python3
"""Apply one patch to a scratch copy of /repo, run the named checks against the copy, report.

usage: mutant.py <patch> [ID ...]   (IDs default to the `# property:` header of the patch)
Patch headers (comment lines before the diff):
  # property: C10[,C06]        which checks must fire (mutants) / stay silent (equivalent edits)
  # expect: <substring>        substring of the violation key that must be reported (mutants)
  # kind: mutant|equivalent
Exit 0 when the outcome is the expected one. The scratch copy and its build output are removed."""
import os
import re
import shutil
import subprocess
import sys
import tempfile

HERE = os.path.dirname(os.path.abspath(__file__))
VERIF = os.path.dirname(HERE)


def headers(path):
    h = {}
    with open(path) as fh:
        for line in fh:
            m = re.match(r"#\s*(\w+):\s*(.*)", line)
            if m:
                h.setdefault(m.group(1), []).append(m.group(2).strip())
            elif line.startswith(("diff ", "--- ")):
                break
    return h


def run(patch, ids=None, keep=False, verbose=False):
    label = os.path.basename(patch)
    if os.path.isdir(patch):
        # a seeded change: <dir>/patch.diff + meta.json (checks_that_fire = the checks that must report it)
        import json
        meta = json.load(open(os.path.join(patch, "meta.json")))
        label = "seeded/" + os.path.basename(patch.rstrip("/"))
        h = {"kind": [meta.get("kind", "mutant")], "property": [",".join(meta.get("checks_that_fire", []))], "expect": []}
        patch = os.path.join(patch, "patch.diff")
    else:
        h = headers(patch)
    kind = (h.get("kind") or ["mutant"])[0]
    if not ids:
        ids = [x.strip() for v in h.get("property", []) for x in v.split(",") if x.strip()]
    expects = h.get("expect", [])
    tmp = tempfile.mkdtemp(prefix="mp4mut-")
    try:
        repo = os.path.join(tmp, "repo")
        subprocess.check_call(["rsync", "-a", "--exclude", "target", "--exclude", ".git", "/repo/", repo + "/"])
        p = subprocess.run(["patch", "-p1", "--no-backup-if-mismatch", "-i", os.path.abspath(patch)], cwd=repo, stdout=subprocess.PIPE, stderr=subprocess.STDOUT, text=True)
        if p.returncode != 0:
            print("PATCH FAILED", patch, p.stdout)
            return False
        ok_all = True
        for pid in ids:
            env = dict(os.environ, VERIF_REPO=repo, VERIF_OUT=os.path.join(tmp, "out"))
            r = subprocess.run([os.path.join(VERIF, "check"), pid], env=env, stdout=subprocess.PIPE, stderr=subprocess.STDOUT, text=True)
            fired = r.returncode == 1 and "VIOLATION property=%s" % pid in r.stdout
            if r.returncode not in (0, 1):
                print("%s %s: check crashed rc=%d\n%s" % (label, pid, r.returncode, r.stdout[-3000:]))
                ok_all = False
                continue
            if kind == "mutant":
                good = fired and all(e in r.stdout for e in expects)
                print("%-46s %s %s" % (label, pid, "caught" if good else ("MISSED" if not fired else "caught-but-key-mismatch")))
                if not good or verbose:
                    print("\n".join("    " + l for l in r.stdout.splitlines() if "VIOLATION" in l or l.startswith("  ") or verbose)[:3000])
            else:
                good = not fired
                print("%-46s %s %s" % (label, pid, "silent" if good else "FALSE-ALARM"))
                if not good:
                    print("\n".join("    " + l for l in r.stdout.splitlines() if "VIOLATION" in l or l.startswith("  "))[:3000])
            ok_all = ok_all and good
        return ok_all
    finally:
        if not keep:
            shutil.rmtree(tmp, ignore_errors=True)


if __name__ == "__main__":
    args = [a for a in sys.argv[1:] if not a.startswith("-")]
    verbose = "-v" in sys.argv
    if not args:
        print(__doc__)
        sys.exit(2)
    ok = run(args[0], args[1:], verbose=verbose)
    sys.exit(0 if ok else 1)
