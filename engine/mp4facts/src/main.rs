// mp4facts — a generic fact extractor built on rustc_private.
//
// It is injected with RUSTC_WORKSPACE_WRAPPER under `cargo +nightly check` and, for the crate
// named in MP4FACTS_CRATE (default "mp4"), writes ONE JSON document to MP4FACTS_OUT describing
// the type-checked program: items, ADTs, constants, MIR bodies (statements, terminators with
// resolved callees, assert kinds), and a simplified HIR expression tree with typeck results.
// It knows nothing about mp4-rust; every repository-specific rule lives in /verif/rules.
#![feature(rustc_private)]

extern crate rustc_abi;
extern crate rustc_ast;
extern crate rustc_driver;
extern crate rustc_hir;
extern crate rustc_interface;
extern crate rustc_middle;
extern crate rustc_span;

mod hirdump;
mod json;
mod mirdump;

use json::J;
use rustc_hir::def::DefKind;
use rustc_hir::def_id::{DefId, LocalDefId};
use rustc_middle::ty::{self, Ty, TyCtxt};
use rustc_span::Span;

pub struct Cx<'tcx> {
    pub tcx: TyCtxt<'tcx>,
}

impl<'tcx> Cx<'tcx> {
    pub fn path(&self, did: DefId) -> String {
        ty::print::with_no_visible_paths!(ty::print::with_no_trimmed_paths!(self.tcx.def_path_str(did)))
    }
    pub fn path_args(&self, did: DefId, args: ty::GenericArgsRef<'tcx>) -> String {
        ty::print::with_no_visible_paths!(ty::print::with_no_trimmed_paths!(self.tcx.def_path_str_with_args(did, args)))
    }
    pub fn ty_str(&self, t: Ty<'tcx>) -> String {
        ty::print::with_no_visible_paths!(ty::print::with_no_trimmed_paths!(format!("{}", t)))
    }
    pub fn ty_json(&self, t: Ty<'tcx>) -> J {
        match t.kind() {
            ty::Adt(def, args) => {
                let mut a = Vec::new();
                for ga in args.iter() {
                    if let Some(t2) = ga.as_type() {
                        a.push(self.ty_json(t2));
                    }
                }
                J::obj(vec![("adt", J::s(self.path(def.did()))), ("args", J::A(a))])
            }
            ty::Ref(_, inner, m) => J::obj(vec![
                ("ref", self.ty_json(*inner)),
                ("mut", J::B(m.is_mut())),
            ]),
            ty::RawPtr(inner, m) => J::obj(vec![
                ("rawptr", self.ty_json(*inner)),
                ("mut", J::B(m.is_mut())),
            ]),
            ty::Slice(inner) => J::obj(vec![("slice", self.ty_json(*inner))]),
            ty::Array(inner, len) => J::obj(vec![
                ("array", self.ty_json(*inner)),
                ("len", match len.try_to_target_usize(self.tcx) {
                    Some(n) => J::I(n as i128),
                    None => J::Null,
                }),
            ]),
            ty::Tuple(ts) => J::obj(vec![(
                "tuple",
                J::A(ts.iter().map(|t2| self.ty_json(t2)).collect()),
            )]),
            ty::Param(p) => J::obj(vec![("param", J::s(p.name.to_string()))]),
            ty::Dynamic(..) => J::obj(vec![("dyn", J::s(self.ty_str(t)))]),
            ty::FnDef(did, _) => J::obj(vec![("fndef", J::s(self.path(*did)))]),
            ty::Closure(did, _) => J::obj(vec![("closure", J::s(self.path(*did)))]),
            _ => J::obj(vec![("p", J::s(self.ty_str(t)))]),
        }
    }
    pub fn span_json(&self, sp: Span) -> J {
        let (exp, cs) = self.expn(sp);
        let sm = self.tcx.sess.source_map();
        let lo = sm.lookup_char_pos(cs.lo());
        let hi = sm.lookup_char_pos(cs.hi());
        let file = format!("{}", lo.file.name.prefer_local_unconditionally());
        let mut v = vec![
            ("file", J::s(file)),
            ("line", J::I(lo.line as i128)),
            ("end", J::I(hi.line as i128)),
        ];
        if let Some(e) = exp {
            v.push(("exp", J::s(e)));
        }
        J::obj(v)
    }
    pub fn line(&self, sp: Span) -> i128 {
        let cs = sp.source_callsite();
        self.tcx.sess.source_map().lookup_char_pos(cs.lo()).line as i128
    }
    /// (expansion description of the outermost macro/desugaring, call-site span)
    pub fn expn(&self, sp: Span) -> (Option<String>, Span) {
        if !sp.from_expansion() {
            return (None, sp);
        }
        let mut cur = sp;
        let mut desc = None;
        while cur.from_expansion() {
            let ed = cur.ctxt().outer_expn_data();
            desc = Some(match ed.kind {
                rustc_span::ExpnKind::Macro(k, name) => format!("{}:{}", k.descr(), name),
                rustc_span::ExpnKind::Desugaring(k) => format!("desugar:{:?}", k),
                rustc_span::ExpnKind::AstPass(k) => format!("astpass:{:?}", k),
                rustc_span::ExpnKind::Root => "root".to_string(),
            });
            cur = ed.call_site;
        }
        (desc, cur)
    }
    /// innermost expansion description (the macro that directly produced this span)
    pub fn expn_inner(&self, sp: Span) -> Option<String> {
        if !sp.from_expansion() {
            return None;
        }
        let ed = sp.ctxt().outer_expn_data();
        Some(match ed.kind {
            rustc_span::ExpnKind::Macro(k, name) => format!("{}:{}", k.descr(), name),
            rustc_span::ExpnKind::Desugaring(k) => format!("desugar:{:?}", k),
            rustc_span::ExpnKind::AstPass(k) => format!("astpass:{:?}", k),
            rustc_span::ExpnKind::Root => "root".to_string(),
        })
    }

    fn vis_str(&self, did: DefId) -> String {
        let v = self.tcx.visibility(did);
        match v {
            ty::Visibility::Public => "pub".to_string(),
            ty::Visibility::Restricted(m) => {
                if m.is_crate_root() {
                    "crate".to_string()
                } else {
                    format!("in:{}", self.path(m))
                }
            }
        }
    }

    fn impl_info(&self, did: DefId) -> J {
        // did is an assoc item / closure; find enclosing impl or trait
        let tcx = self.tcx;
        let mut cur = did;
        loop {
            match tcx.def_kind(cur) {
                DefKind::Impl { .. } => {
                    let self_ty = tcx.type_of(cur).instantiate_identity().skip_norm_wip();
                    let tr = match tcx.impl_opt_trait_ref(cur) {
                        Some(t) => {
                            let t = t.instantiate_identity().skip_norm_wip();
                            J::s(self.path_args(t.def_id, t.args))
                        }
                        None => J::Null,
                    };
                    let trp = match tcx.impl_opt_trait_ref(cur) {
                        Some(t) => J::s(self.path(t.skip_binder().def_id)),
                        None => J::Null,
                    };
                    return J::obj(vec![
                        ("self_ty", J::s(self.ty_str(self_ty))),
                        ("self", self.ty_json(self_ty)),
                        ("trait", tr),
                        ("trait_path", trp),
                        ("impl_id", J::s(self.path(cur))),
                    ]);
                }
                DefKind::Trait => {
                    return J::obj(vec![("in_trait", J::s(self.path(cur)))]);
                }
                DefKind::Mod => return J::Null,
                _ => {}
            }
            match tcx.opt_parent(cur) {
                Some(p) => cur = p,
                None => return J::Null,
            }
        }
    }

    fn fn_record(&self, ldid: LocalDefId) -> J {
        let tcx = self.tcx;
        let did = ldid.to_def_id();
        let kind = tcx.def_kind(did);
        let mut v: Vec<(&'static str, J)> = Vec::new();
        v.push(("id", J::s(self.path(did))));
        v.push(("name", J::s(tcx.opt_item_name(did).map(|s| s.to_string()).unwrap_or_default())));
        v.push(("kind", J::s(format!("{:?}", kind))));
        let sp = tcx.def_span(did);
        v.push(("span", self.span_json(sp)));
        let body_sp = tcx.hir_span_with_body(tcx.local_def_id_to_hir_id(ldid));
        v.push(("body_span", self.span_json(body_sp)));
        if matches!(kind, DefKind::Fn | DefKind::AssocFn) {
            v.push(("vis", J::s(self.vis_str(did))));
            let sig = tcx.fn_sig(did).instantiate_identity().skip_norm_wip().skip_binder();
            v.push((
                "inputs",
                J::A(sig.inputs().iter().map(|t| self.ty_json(*t)).collect()),
            ));
            v.push(("inputs_s", J::A(sig.inputs().iter().map(|t| J::s(self.ty_str(*t))).collect())));
            v.push(("output", self.ty_json(sig.output())));
            v.push(("output_s", J::s(self.ty_str(sig.output()))));
            // names of the type parameters in substitution order (parent's first): lets a call site's type arguments be
            // matched to the callee's parameters
            let g = tcx.generics_of(did);
            let mut gp: Vec<J> = Vec::new();
            for i in 0..g.count() {
                let p = g.param_at(i, tcx);
                if matches!(p.kind, rustc_middle::ty::GenericParamDefKind::Type { .. }) {
                    gp.push(J::s(p.name.to_string()));
                }
            }
            v.push(("generics", J::A(gp)));
            // is it automatically derived?
            let derived = tcx
                .opt_parent(did)
                .map(|p| {
                    matches!(tcx.def_kind(p), DefKind::Impl { .. })
                        && tcx.is_automatically_derived(p)
                })
                .unwrap_or(false);
            v.push(("derived", J::B(derived)));
        }
        if let Some(p) = tcx.opt_parent(did) {
            v.push(("parent", J::s(self.path(p))));
        }
        v.push(("impl", self.impl_info(did)));
        v.push(("from_expansion", J::B(sp.from_expansion())));
        if let Some(e) = self.expn(sp).0 {
            v.push(("expn", J::s(e)));
        }
        v.push(("mir", mirdump::dump_body(self, ldid)));
        v.push(("hir", hirdump::dump_body(self, ldid)));
        J::obj(v)
    }

    fn adt_record(&self, did: DefId) -> J {
        let tcx = self.tcx;
        let adt = tcx.adt_def(did);
        let mut v: Vec<(&'static str, J)> = Vec::new();
        v.push(("id", J::s(self.path(did))));
        v.push(("kind", J::s(format!("{:?}", adt.adt_kind()))));
        v.push(("vis", J::s(self.vis_str(did))));
        v.push(("span", self.span_json(tcx.def_span(did))));
        let mut variants = Vec::new();
        let is_enum = adt.is_enum();
        let discrs: Vec<(rustc_abi::VariantIdx, ty::util::Discr<'tcx>)> =
            if is_enum { adt.discriminants(tcx).collect() } else { Vec::new() };
        for (vi, var) in adt.variants().iter_enumerated() {
            let mut fields = Vec::new();
            for f in var.fields.iter() {
                let fty = tcx.type_of(f.did).instantiate_identity().skip_norm_wip();
                fields.push(J::obj(vec![
                    ("name", J::s(f.name.to_string())),
                    ("ty", self.ty_json(fty)),
                    ("ty_s", J::s(self.ty_str(fty))),
                    ("vis", J::s(self.vis_str(f.did))),
                ]));
            }
            let mut vv = vec![
                ("name", J::s(var.name.to_string())),
                ("idx", J::I(vi.as_u32() as i128)),
                ("fields", J::A(fields)),
            ];
            if is_enum {
                if let Some((_, d)) = discrs.iter().find(|(i, _)| *i == vi) {
                    // Discr.val is u128 bits; sign-interpret through ty
                    let val: i128 = if d.ty.is_signed() {
                        let size = rustc_abi::Integer::from_attr(&tcx, tcx.adt_def(did).repr().discr_type()).size();
                        size.sign_extend(d.val) as i128
                    } else {
                        d.val as i128
                    };
                    vv.push(("discr", J::I(val)));
                }
            }
            variants.push(J::obj(vv));
        }
        v.push(("variants", J::A(variants)));
        J::obj(v)
    }

    fn const_record(&self, ldid: LocalDefId) -> Option<J> {
        let tcx = self.tcx;
        let did = ldid.to_def_id();
        let kind = tcx.def_kind(did);
        let mut v: Vec<(&'static str, J)> = Vec::new();
        v.push(("id", J::s(self.path(did))));
        v.push(("kind", J::s(format!("{:?}", kind))));
        let t = tcx.type_of(did).instantiate_identity().skip_norm_wip();
        v.push(("ty", J::s(self.ty_str(t))));
        v.push(("span", self.span_json(tcx.def_span(did))));
        if matches!(kind, DefKind::Static { .. }) {
            v.push(("mutable", J::B(tcx.is_mutable_static(did))));
        }
        if matches!(kind, DefKind::Const { .. } | DefKind::AssocConst { .. }) {
            let generics = tcx.generics_of(did);
            if generics.is_empty() {
                if let Ok(val) = tcx.const_eval_poly(did) {
                    if let Some(si) = val.try_to_scalar_int() {
                        v.push(("val", mirdump::scalar_to_json(si, t)));
                    }
                }
            }
        }
        v.push(("hir", hirdump::dump_body(self, ldid)));
        Some(J::obj(v))
    }
}

struct Cb;

impl rustc_driver::Callbacks for Cb {
    fn after_analysis<'tcx>(
        &mut self,
        _c: &rustc_interface::interface::Compiler,
        tcx: TyCtxt<'tcx>,
    ) -> rustc_driver::Compilation {
        let want = std::env::var("MP4FACTS_CRATE").unwrap_or_else(|_| "mp4".to_string());
        let krate = tcx.crate_name(rustc_hir::def_id::LOCAL_CRATE).to_string();
        let wanted: Vec<&str> = want.split(',').collect();
        if !wanted.contains(&krate.as_str()) {
            return rustc_driver::Compilation::Continue;
        }
        let out = match std::env::var("MP4FACTS_OUT") {
            Ok(o) => o,
            Err(_) => return rustc_driver::Compilation::Continue,
        };
        let cx = Cx { tcx };
        let mut fns = Vec::new();
        let mut consts = Vec::new();
        for ldid in tcx.hir_body_owners() {
            let kind = tcx.def_kind(ldid.to_def_id());
            match kind {
                DefKind::Fn | DefKind::AssocFn | DefKind::Closure => {
                    fns.push(cx.fn_record(ldid));
                }
                DefKind::Const { .. } | DefKind::AssocConst { .. } | DefKind::Static { .. } => {
                    if let Some(c) = cx.const_record(ldid) {
                        consts.push(c);
                    }
                }
                _ => {}
            }
        }
        let mut adts = Vec::new();
        let mut impls = Vec::new();
        let mut unsafe_impls = 0;
        for ldid in tcx.hir_crate_items(()).definitions() {
            let did = ldid.to_def_id();
            match tcx.def_kind(did) {
                DefKind::Struct | DefKind::Enum | DefKind::Union => adts.push(cx.adt_record(did)),
                DefKind::Impl { .. } => {
                    let self_ty = tcx.type_of(did).instantiate_identity().skip_norm_wip();
                    let tr = tcx.impl_opt_trait_ref(did).map(|t| t.skip_binder());
                    let mut items = Vec::new();
                    for it in tcx.associated_items(did).in_definition_order() {
                        items.push(J::s(cx.path(it.def_id)));
                    }
                    let sp = tcx.def_span(did);
                    impls.push(J::obj(vec![
                        ("id", J::s(cx.path(did))),
                        ("self_ty", J::s(cx.ty_str(self_ty))),
                        ("self", cx.ty_json(self_ty)),
                        ("trait", match tr { Some(t) => J::s(cx.path_args(t.def_id, t.args)), None => J::Null }),
                        ("trait_path", match tr { Some(t) => J::s(cx.path(t.def_id)), None => J::Null }),
                        ("items", J::A(items)),
                        ("derived", J::B(tcx.is_automatically_derived(did))),
                        ("span", cx.span_json(sp)),
                    ]));
                    let _ = &mut unsafe_impls;
                }
                _ => {}
            }
        }
        let doc = J::obj(vec![
            ("crate", J::s(krate)),
            ("fns", J::A(fns)),
            ("adts", J::A(adts)),
            ("consts", J::A(consts)),
            ("impls", J::A(impls)),
        ]);
        let mut s = String::new();
        doc.write(&mut s);
        std::fs::write(&out, s).expect("write facts");
        rustc_driver::Compilation::Continue
    }
}

fn main() {
    let mut args: Vec<String> = std::env::args().collect();
    // RUSTC_WORKSPACE_WRAPPER: argv[1] is the real rustc path.
    if args.len() > 1 && (args[1].ends_with("rustc") || args[1].contains("/rustc")) {
        args.remove(1);
    }
    rustc_driver::run_compiler(&args, &mut Cb);
}
