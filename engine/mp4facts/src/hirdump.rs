// Simplified HIR expression tree with typeck results.
// `?`, `for`, `while` desugarings are folded back into Try / For / While nodes.
use crate::json::J;
use crate::Cx;
use rustc_ast::LitKind;
use rustc_hir as hir;
use rustc_hir::def::{DefKind, Res};
use rustc_hir::def_id::{DefId, LocalDefId};
use rustc_hir::{Expr, ExprKind, LoopSource, MatchSource, Pat, PatExprKind, PatKind, QPath, StmtKind};
use rustc_middle::ty::{self, Instance, TypeVisitableExt, TypeckResults, TypingEnv};

struct H<'a, 'tcx> {
    cx: &'a Cx<'tcx>,
    tr: &'tcx TypeckResults<'tcx>,
    env: TypingEnv<'tcx>,
}

type KV = Vec<(&'static str, J)>;

impl<'a, 'tcx> H<'a, 'tcx> {
    fn resolve(&self, did: DefId, args: ty::GenericArgsRef<'tcx>) -> J {
        match self.cx.tcx.def_kind(did) {
            DefKind::Fn | DefKind::AssocFn => {}
            _ => return J::Null,
        }
        // args that still contain inference variables cannot be resolved
        if args.iter().any(|a| a.as_type().map(|t| t.has_infer()).unwrap_or(false)) {
            return J::Null;
        }
        match Instance::try_resolve(self.cx.tcx, self.env, did, args) {
            Ok(Some(inst)) => J::s(self.cx.path(inst.def_id())),
            _ => J::Null,
        }
    }

    fn res_json(&self, res: Res, v: &mut KV) {
        match res {
            Res::Local(hid) => {
                v.push(("res", J::s("local")));
                v.push(("name", J::s(self.cx.tcx.hir_name(hid).to_string())));
                v.push(("lid", J::I(hid.local_id.as_u32() as i128)));
            }
            Res::Def(kind, did) => {
                v.push(("res", J::s("def")));
                v.push(("dk", J::s(format!("{:?}", kind))));
                v.push(("def", J::s(self.cx.path(did))));
                match kind {
                    DefKind::Const { .. } | DefKind::AssocConst { .. } => {
                        if self.cx.tcx.generics_of(did).is_empty() {
                            if let Ok(val) = self.cx.tcx.const_eval_poly(did) {
                                if let Some(si) = val.try_to_scalar_int() {
                                    let t = self.cx.tcx.type_of(did).instantiate_identity().skip_norm_wip();
                                    v.push(("val", crate::mirdump::scalar_to_json(si, t)));
                                }
                            }
                        }
                    }
                    DefKind::Ctor(..) => {
                        // parent is the variant (or struct); grandparent the enum
                        if let Some(p) = self.cx.tcx.opt_parent(did) {
                            v.push(("ctor_of", J::s(self.cx.path(p))));
                        }
                    }
                    _ => {}
                }
            }
            Res::SelfCtor(did) | Res::SelfTyAlias { alias_to: did, .. } => {
                v.push(("res", J::s("self")));
                v.push(("def", J::s(self.cx.path(did))));
            }
            Res::PrimTy(p) => {
                v.push(("res", J::s("prim")));
                v.push(("name", J::s(p.name_str())));
            }
            other => {
                v.push(("res", J::s(format!("{:?}", other))));
            }
        }
    }

    fn lit(&self, l: &LitKind, negated: bool, v: &mut KV) {
        match l {
            LitKind::Int(n, _) => {
                let val = n.get();
                if negated {
                    v.push(("val", J::I(-(val as i128))));
                } else if val > i128::MAX as u128 {
                    v.push(("val", J::S(val.to_string())));
                } else {
                    v.push(("val", J::I(val as i128)));
                }
                v.push(("lk", J::s("int")));
            }
            LitKind::Bool(b) => {
                v.push(("val", J::B(*b)));
                v.push(("lk", J::s("bool")));
            }
            LitKind::Str(s, _) => {
                v.push(("val", J::s(s.to_string())));
                v.push(("lk", J::s("str")));
            }
            LitKind::ByteStr(bs, _) | LitKind::CStr(bs, _) => {
                v.push(("val", J::A(bs.as_byte_str().iter().map(|b| J::I(*b as i128)).collect())));
                v.push(("lk", J::s("bytes")));
            }
            LitKind::Byte(b) => {
                v.push(("val", J::I(*b as i128)));
                v.push(("lk", J::s("byte")));
            }
            LitKind::Char(c) => {
                v.push(("val", J::I(*c as u32 as i128)));
                v.push(("lk", J::s("char")));
            }
            LitKind::Float(s, _) => {
                v.push(("val", J::s(s.to_string())));
                v.push(("lk", J::s("float")));
            }
            LitKind::Err(_) => {
                v.push(("lk", J::s("err")));
            }
        }
    }

    fn pat_expr(&self, pe: &hir::PatExpr<'tcx>) -> J {
        let mut v: KV = Vec::new();
        match &pe.kind {
            PatExprKind::Lit { lit, negated } => {
                v.push(("k", J::s("lit")));
                self.lit(&lit.node, *negated, &mut v);
            }
            PatExprKind::Path(qp) => {
                v.push(("k", J::s("path")));
                let res = self.tr.qpath_res(qp, pe.hir_id);
                self.res_json(res, &mut v);
            }
        }
        J::obj(v)
    }

    fn pat(&self, p: &Pat<'tcx>) -> J {
        let mut v: KV = Vec::new();
        match &p.kind {
            PatKind::Missing => v.push(("k", J::s("missing"))),
            PatKind::Wild => v.push(("k", J::s("wild"))),
            PatKind::Never => v.push(("k", J::s("never"))),
            PatKind::Binding(mode, hid, ident, sub) => {
                v.push(("k", J::s("bind")));
                v.push(("name", J::s(ident.name.to_string())));
                v.push(("lid", J::I(hid.local_id.as_u32() as i128)));
                v.push(("byref", J::B(!matches!(mode.0, rustc_ast::ByRef::No))));
                v.push(("mut", J::B(mode.1.is_mut())));
                if let Some(s) = sub {
                    v.push(("sub", self.pat(s)));
                }
            }
            PatKind::Struct(qp, fields, rest) => {
                v.push(("k", J::s("struct")));
                let res = self.tr.qpath_res(qp, p.hir_id);
                self.res_json(res, &mut v);
                let fs: Vec<J> = fields
                    .iter()
                    .map(|f| J::obj(vec![("name", J::s(f.ident.name.to_string())), ("pat", self.pat(f.pat))]))
                    .collect();
                v.push(("fields", J::A(fs)));
                v.push(("rest", J::B(rest.is_some())));
            }
            PatKind::TupleStruct(qp, subs, ddpos) => {
                v.push(("k", J::s("tuplestruct")));
                let res = self.tr.qpath_res(qp, p.hir_id);
                self.res_json(res, &mut v);
                v.push(("subs", J::A(subs.iter().map(|s| self.pat(s)).collect())));
                if let Some(n) = ddpos.as_opt_usize() {
                    v.push(("dotdot", J::I(n as i128)));
                }
            }
            PatKind::Or(subs) => {
                v.push(("k", J::s("or")));
                v.push(("subs", J::A(subs.iter().map(|s| self.pat(s)).collect())));
            }
            PatKind::Tuple(subs, ddpos) => {
                v.push(("k", J::s("tuple")));
                v.push(("subs", J::A(subs.iter().map(|s| self.pat(s)).collect())));
                if let Some(n) = ddpos.as_opt_usize() {
                    v.push(("dotdot", J::I(n as i128)));
                }
            }
            PatKind::Box(s) | PatKind::Deref(s) => {
                v.push(("k", J::s("deref")));
                v.push(("sub", self.pat(s)));
            }
            PatKind::Ref(s, _, m) => {
                v.push(("k", J::s("ref")));
                v.push(("mut", J::B(m.is_mut())));
                v.push(("sub", self.pat(s)));
            }
            PatKind::Expr(pe) => {
                v.push(("k", J::s("expr")));
                v.push(("e", self.pat_expr(pe)));
            }
            PatKind::Guard(s, g) => {
                v.push(("k", J::s("guard")));
                v.push(("sub", self.pat(s)));
                v.push(("cond", self.expr(g)));
            }
            PatKind::Range(lo, hi, end) => {
                v.push(("k", J::s("range")));
                v.push(("lo", lo.map(|e| self.pat_expr(e)).unwrap_or(J::Null)));
                v.push(("hi", hi.map(|e| self.pat_expr(e)).unwrap_or(J::Null)));
                v.push(("inclusive", J::B(matches!(end, hir::RangeEnd::Included))));
            }
            PatKind::Slice(before, mid, after) => {
                v.push(("k", J::s("slice")));
                v.push(("before", J::A(before.iter().map(|s| self.pat(s)).collect())));
                v.push(("mid", mid.map(|s| self.pat(s)).unwrap_or(J::Null)));
                v.push(("after", J::A(after.iter().map(|s| self.pat(s)).collect())));
            }
            PatKind::Err(_) => v.push(("k", J::s("err"))),
        }
        if let Some(t) = self.tr.node_type_opt(p.hir_id) {
            v.push(("ty", J::s(self.cx.ty_str(t))));
        }
        J::obj(v)
    }

    fn block(&self, b: &hir::Block<'tcx>) -> J {
        let mut stmts = Vec::new();
        for s in b.stmts {
            match &s.kind {
                StmtKind::Let(l) => {
                    let mut v: KV = vec![("k", J::s("let")), ("pat", self.pat(l.pat))];
                    if let Some(i) = l.init {
                        v.push(("init", self.expr(i)));
                    }
                    if let Some(e) = l.els {
                        v.push(("else", self.block(e)));
                    }
                    v.push(("line", J::I(self.cx.line(s.span))));
                    stmts.push(J::obj(v));
                }
                StmtKind::Item(_) => {}
                StmtKind::Expr(e) => {
                    stmts.push(J::obj(vec![("k", J::s("expr")), ("e", self.expr(e)), ("line", J::I(self.cx.line(s.span)))]));
                }
                StmtKind::Semi(e) => {
                    stmts.push(J::obj(vec![("k", J::s("semi")), ("e", self.expr(e)), ("line", J::I(self.cx.line(s.span)))]));
                }
            }
        }
        let mut v: KV = vec![("k", J::s("block")), ("stmts", J::A(stmts))];
        if let Some(e) = b.expr {
            v.push(("expr", self.expr(e)));
        }
        if matches!(b.rules, hir::BlockCheckMode::UnsafeBlock(_)) {
            v.push(("unsafe", J::B(true)));
        }
        J::obj(v)
    }

    fn try_fold_for(&self, e: &Expr<'tcx>) -> Option<KV> {
        // match IntoIterator::into_iter(<iter>) { mut iter => loop { match Iterator::next(&mut iter) { None => break, Some(<pat>) => <body> } } }
        let ExprKind::Match(scrut, arms, MatchSource::ForLoopDesugar) = &e.kind else { return None };
        let ExprKind::Call(_, args) = &scrut.kind else { return None };
        let iter = args.get(0)?;
        let arm = arms.get(0)?;
        let ExprKind::Loop(blk, _, LoopSource::ForLoop, _) = &arm.body.kind else { return None };
        let inner = match (blk.stmts.get(0), blk.expr) {
            (Some(s), _) => match &s.kind {
                StmtKind::Expr(x) | StmtKind::Semi(x) => *x,
                _ => return None,
            },
            (None, Some(x)) => x,
            _ => return None,
        };
        let ExprKind::Match(_, inner_arms, _) = &inner.kind else { return None };
        let some_arm = inner_arms.get(1)?;
        let pat = match &some_arm.pat.kind {
            PatKind::Struct(_, fields, _) => fields.get(0)?.pat,
            PatKind::TupleStruct(_, subs, _) => subs.get(0)?,
            _ => return None,
        };
        let mut v: KV = vec![("k", J::s("for"))];
        v.push(("pat", self.pat(pat)));
        v.push(("iter", self.expr(iter)));
        v.push(("body", self.expr(some_arm.body)));
        Some(v)
    }

    fn expr(&self, e: &Expr<'tcx>) -> J {
        let mut v: KV = Vec::new();
        match &e.kind {
            ExprKind::DropTemps(inner) | ExprKind::Use(inner, _) | ExprKind::Type(inner, _) => {
                return self.expr(inner);
            }
            ExprKind::ConstBlock(_) => v.push(("k", J::s("constblock"))),
            ExprKind::Array(es) => {
                v.push(("k", J::s("array")));
                v.push(("es", J::A(es.iter().map(|x| self.expr(x)).collect())));
            }
            ExprKind::Call(f, args) => {
                v.push(("k", J::s("call")));
                // resolve the callee
                if let ExprKind::Path(qp) = &f.kind {
                    let res = self.tr.qpath_res(qp, f.hir_id);
                    if let Res::Def(kind, did) = res {
                        v.push(("fn", J::s(self.cx.path(did))));
                        v.push(("dk", J::s(format!("{:?}", kind))));
                        if let Some(a) = self.tr.node_args_opt(f.hir_id) {
                            v.push(("fn_full", J::s(self.cx.path_args(did, a))));
                            v.push(("resolved", self.resolve(did, a)));
                        }
                        if let DefKind::Ctor(..) = kind {
                            if let Some(p) = self.cx.tcx.opt_parent(did) {
                                v.push(("ctor_of", J::s(self.cx.path(p))));
                            }
                        }
                        if let QPath::Resolved(_, p) = qp {
                            if let Some(seg) = p.segments.last() {
                                v.push(("seg", J::s(seg.ident.name.to_string())));
                            }
                        }
                    } else {
                        v.push(("f", self.expr(f)));
                    }
                } else {
                    v.push(("f", self.expr(f)));
                }
                v.push(("args", J::A(args.iter().map(|x| self.expr(x)).collect())));
            }
            ExprKind::MethodCall(seg, recv, args, _) => {
                v.push(("k", J::s("mcall")));
                v.push(("m", J::s(seg.ident.name.to_string())));
                if let Some(did) = self.tr.type_dependent_def_id(e.hir_id) {
                    v.push(("fn", J::s(self.cx.path(did))));
                    let a = self.tr.node_args(e.hir_id);
                    v.push(("fn_full", J::s(self.cx.path_args(did, a))));
                    v.push(("resolved", self.resolve(did, a)));
                    if let Some(tr) = self.cx.tcx.trait_of_assoc(did) {
                        v.push(("trait", J::s(self.cx.path(tr))));
                    }
                }
                v.push(("recv", self.expr(recv)));
                v.push(("recv_aty", J::s(self.cx.ty_str(self.tr.expr_ty_adjusted(recv)))));
                v.push(("args", J::A(args.iter().map(|x| self.expr(x)).collect())));
            }
            ExprKind::Tup(es) => {
                v.push(("k", J::s("tup")));
                v.push(("es", J::A(es.iter().map(|x| self.expr(x)).collect())));
            }
            ExprKind::Binary(op, l, r) => {
                v.push(("k", J::s("bin")));
                v.push(("op", J::s(format!("{:?}", op.node))));
                v.push(("l", self.expr(l)));
                v.push(("r", self.expr(r)));
                if let Some(did) = self.tr.type_dependent_def_id(e.hir_id) {
                    v.push(("ovl", J::s(self.cx.path(did))));
                }
            }
            ExprKind::Unary(op, x) => {
                v.push(("k", J::s("un")));
                v.push(("op", J::s(format!("{:?}", op))));
                v.push(("e", self.expr(x)));
                if let Some(did) = self.tr.type_dependent_def_id(e.hir_id) {
                    v.push(("ovl", J::s(self.cx.path(did))));
                }
            }
            ExprKind::Lit(l) => {
                v.push(("k", J::s("lit")));
                self.lit(&l.node, false, &mut v);
            }
            ExprKind::Cast(x, _) => {
                v.push(("k", J::s("cast")));
                v.push(("e", self.expr(x)));
            }
            ExprKind::Let(l) => {
                v.push(("k", J::s("letx")));
                v.push(("pat", self.pat(l.pat)));
                v.push(("init", self.expr(l.init)));
            }
            ExprKind::If(c, t, el) => {
                v.push(("k", J::s("if")));
                v.push(("cond", self.expr(c)));
                v.push(("then", self.expr(t)));
                if let Some(x) = el {
                    v.push(("else", self.expr(x)));
                }
            }
            ExprKind::Loop(blk, label, src, _) => {
                let mut folded = false;
                if let LoopSource::While = src {
                    // loop { if cond { body } else { break } }
                    if let (true, Some(x)) = (blk.stmts.is_empty(), blk.expr) {
                        if let ExprKind::If(c, t, Some(_)) = &x.kind {
                            v.push(("k", J::s("while")));
                            v.push(("cond", self.expr(c)));
                            v.push(("body", self.expr(t)));
                            folded = true;
                        }
                    }
                }
                if !folded {
                    v.push(("k", J::s("loop")));
                    v.push(("src", J::s(src.name())));
                    v.push(("body", self.block(blk)));
                }
                if let Some(l) = label {
                    v.push(("label", J::s(l.ident.name.to_string())));
                }
            }
            ExprKind::Match(scrut, arms, src) => {
                let mut done = false;
                match src {
                    MatchSource::TryDesugar(_) => {
                        if let ExprKind::Call(_, args) = &scrut.kind {
                            if let Some(inner) = args.get(0) {
                                v.push(("k", J::s("try")));
                                v.push(("e", self.expr(inner)));
                                done = true;
                            }
                        }
                    }
                    MatchSource::ForLoopDesugar => {
                        if let Some(kv) = self.try_fold_for(e) {
                            v = kv;
                            done = true;
                        }
                    }
                    _ => {}
                }
                if !done {
                    v.push(("k", J::s("match")));
                    v.push(("src", J::s(src.name())));
                    v.push(("scrut", self.expr(scrut)));
                    let mut as_ = Vec::new();
                    for a in arms.iter() {
                        let mut av: KV = vec![("pat", self.pat(a.pat))];
                        if let Some(g) = a.guard {
                            av.push(("guard", self.expr(g)));
                        }
                        av.push(("body", self.expr(a.body)));
                        av.push(("line", J::I(self.cx.line(a.span))));
                        as_.push(J::obj(av));
                    }
                    v.push(("arms", J::A(as_)));
                }
            }
            ExprKind::Closure(c) => {
                v.push(("k", J::s("closure")));
                v.push(("def", J::s(self.cx.path(c.def_id.to_def_id()))));
                let body = self.cx.tcx.hir_body(c.body);
                v.push(("params", J::A(body.params.iter().map(|p| self.pat(p.pat)).collect())));
                v.push(("body", self.expr(body.value)));
            }
            ExprKind::Block(b, label) => {
                let j = self.block(b);
                if let J::O(kv) = j {
                    v = kv;
                }
                if let Some(l) = label {
                    v.push(("label", J::s(l.ident.name.to_string())));
                }
            }
            ExprKind::Assign(l, r, _) => {
                v.push(("k", J::s("assign")));
                v.push(("l", self.expr(l)));
                v.push(("r", self.expr(r)));
            }
            ExprKind::AssignOp(op, l, r) => {
                v.push(("k", J::s("assignop")));
                v.push(("op", J::s(format!("{:?}", op.node))));
                v.push(("l", self.expr(l)));
                v.push(("r", self.expr(r)));
                if let Some(did) = self.tr.type_dependent_def_id(e.hir_id) {
                    v.push(("ovl", J::s(self.cx.path(did))));
                }
            }
            ExprKind::Field(x, ident) => {
                v.push(("k", J::s("field")));
                v.push(("e", self.expr(x)));
                v.push(("name", J::s(ident.name.to_string())));
            }
            ExprKind::Index(x, i, _) => {
                v.push(("k", J::s("index")));
                v.push(("e", self.expr(x)));
                v.push(("i", self.expr(i)));
                if let Some(did) = self.tr.type_dependent_def_id(e.hir_id) {
                    v.push(("ovl", J::s(self.cx.path(did))));
                }
            }
            ExprKind::Path(qp) => {
                v.push(("k", J::s("path")));
                let res = self.tr.qpath_res(qp, e.hir_id);
                self.res_json(res, &mut v);
            }
            ExprKind::AddrOf(_, m, x) => {
                v.push(("k", J::s("addrof")));
                v.push(("mut", J::B(m.is_mut())));
                v.push(("e", self.expr(x)));
            }
            ExprKind::Break(dest, x) => {
                v.push(("k", J::s("break")));
                if let Some(l) = dest.label {
                    v.push(("label", J::s(l.ident.name.to_string())));
                }
                if let Some(x) = x {
                    v.push(("e", self.expr(x)));
                }
            }
            ExprKind::Continue(dest) => {
                v.push(("k", J::s("continue")));
                if let Some(l) = dest.label {
                    v.push(("label", J::s(l.ident.name.to_string())));
                }
            }
            ExprKind::Ret(x) => {
                v.push(("k", J::s("ret")));
                if let Some(x) = x {
                    v.push(("e", self.expr(x)));
                }
            }
            ExprKind::Struct(qp, fields, tail) => {
                v.push(("k", J::s("struct")));
                let res = self.tr.qpath_res(qp, e.hir_id);
                self.res_json(res, &mut v);
                let fs: Vec<J> = fields
                    .iter()
                    .map(|f| {
                        J::obj(vec![
                            ("name", J::s(f.ident.name.to_string())),
                            ("e", self.expr(f.expr)),
                            ("shorthand", J::B(f.is_shorthand)),
                        ])
                    })
                    .collect();
                v.push(("fields", J::A(fs)));
                match tail {
                    hir::StructTailExpr::Base(b) => v.push(("base", self.expr(b))),
                    hir::StructTailExpr::DefaultFields(_) => v.push(("base", J::s("default_fields"))),
                    _ => {}
                }
            }
            ExprKind::Repeat(x, _) => {
                v.push(("k", J::s("repeat")));
                v.push(("e", self.expr(x)));
            }
            ExprKind::Become(x) => {
                v.push(("k", J::s("become")));
                v.push(("e", self.expr(x)));
            }
            ExprKind::Yield(x, _) => {
                v.push(("k", J::s("yield")));
                v.push(("e", self.expr(x)));
            }
            ExprKind::InlineAsm(_) => v.push(("k", J::s("asm"))),
            ExprKind::OffsetOf(..) => v.push(("k", J::s("offsetof"))),
            ExprKind::UnsafeBinderCast(_, x, _) => {
                return self.expr(x);
            }
            ExprKind::Err(_) => v.push(("k", J::s("err"))),
        }
        if let Some(t) = self.tr.expr_ty_opt(e) {
            v.push(("ty", J::s(self.cx.ty_str(t))));
        }
        v.push(("line", J::I(self.cx.line(e.span))));
        if let Some(x) = self.cx.expn_inner(e.span) {
            v.push(("exp", J::s(x)));
        }
        J::obj(v)
    }
}

pub fn dump_body<'tcx>(cx: &Cx<'tcx>, ldid: LocalDefId) -> J {
    let tcx = cx.tcx;
    let Some(body) = tcx.hir_maybe_body_owned_by(ldid) else { return J::Null };
    let tr = tcx.typeck(ldid);
    let env = TypingEnv::post_analysis(tcx, ldid.to_def_id());
    let h = H { cx, tr, env };
    let params: Vec<J> = body.params.iter().map(|p| h.pat(p.pat)).collect();
    J::obj(vec![("params", J::A(params)), ("body", h.expr(body.value))])
}
