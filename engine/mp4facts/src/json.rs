// Minimal JSON value + writer (the driver has zero cargo dependencies).
pub enum J {
    Null,
    B(bool),
    I(i128),
    S(String),
    A(Vec<J>),
    O(Vec<(&'static str, J)>),
}

impl J {
    pub fn s<T: Into<String>>(t: T) -> J {
        J::S(t.into())
    }
    pub fn obj(v: Vec<(&'static str, J)>) -> J {
        J::O(v)
    }
    pub fn write(&self, out: &mut String) {
        match self {
            J::Null => out.push_str("null"),
            J::B(b) => out.push_str(if *b { "true" } else { "false" }),
            J::I(i) => out.push_str(&i.to_string()),
            J::S(s) => write_str(s, out),
            J::A(a) => {
                out.push('[');
                for (i, x) in a.iter().enumerate() {
                    if i > 0 {
                        out.push(',');
                    }
                    x.write(out);
                }
                out.push(']');
            }
            J::O(o) => {
                out.push('{');
                for (i, (k, x)) in o.iter().enumerate() {
                    if i > 0 {
                        out.push(',');
                    }
                    write_str(k, out);
                    out.push(':');
                    x.write(out);
                }
                out.push('}');
            }
        }
    }
}

fn write_str(s: &str, out: &mut String) {
    out.push('"');
    for c in s.chars() {
        match c {
            '"' => out.push_str("\\\""),
            '\\' => out.push_str("\\\\"),
            '\n' => out.push_str("\\n"),
            '\r' => out.push_str("\\r"),
            '\t' => out.push_str("\\t"),
            c if (c as u32) < 0x20 => out.push_str(&format!("\\u{:04x}", c as u32)),
            c => out.push(c),
        }
    }
    out.push('"');
}
