// MIR dump: locals, blocks, statements, terminators with resolved callees.
use crate::json::J;
use crate::Cx;
use rustc_hir::def_id::LocalDefId;
use rustc_middle::mir::*;
use rustc_middle::ty::{self, Instance, ScalarInt, Ty, TypingEnv};

pub fn scalar_to_json<'tcx>(si: ScalarInt, t: Ty<'tcx>) -> J {
    let size = si.size();
    if size.bytes() == 0 {
        return J::Null;
    }
    match t.kind() {
        ty::Int(_) => J::I(si.to_int(size)),
        ty::Uint(_) => {
            let u = si.to_uint(size);
            if u > i128::MAX as u128 { J::S(u.to_string()) } else { J::I(u as i128) }
        }
        ty::Bool => J::I(si.to_uint(size) as i128),
        ty::Char => J::I(si.to_uint(size) as i128),
        _ => {
            let u = si.to_uint(size);
            if u > i128::MAX as u128 { J::S(u.to_string()) } else { J::I(u as i128) }
        }
    }
}

struct B<'a, 'tcx> {
    cx: &'a Cx<'tcx>,
    body: &'a Body<'tcx>,
    env: TypingEnv<'tcx>,
}

impl<'a, 'tcx> B<'a, 'tcx> {
    fn place(&self, p: &Place<'tcx>) -> J {
        let tcx = self.cx.tcx;
        let mut pty = PlaceTy::from_ty(self.body.local_decls[p.local].ty);
        let mut proj = Vec::new();
        for elem in p.projection.iter() {
            let j = match elem {
                ProjectionElem::Deref => J::s("deref"),
                ProjectionElem::Field(f, fty) => {
                    let name = match pty.ty.kind() {
                        ty::Adt(adt, _) => {
                            let vi = pty.variant_index.unwrap_or(rustc_abi::FIRST_VARIANT);
                            if adt.is_union() || adt.is_struct() || adt.is_enum() {
                                adt.variant(vi).fields[f].name.to_string()
                            } else {
                                f.as_u32().to_string()
                            }
                        }
                        _ => f.as_u32().to_string(),
                    };
                    let mut fv = vec![("f", J::s(name)), ("i", J::I(f.as_u32() as i128)), ("ty", J::s(self.cx.ty_str(fty)))];
                    if let ty::Adt(adt, _) = pty.ty.kind() {
                        fv.push(("adt", J::s(self.cx.path(adt.did()))));
                    }
                    J::obj(fv)
                }
                ProjectionElem::Index(l) => J::obj(vec![("index", J::I(l.as_u32() as i128))]),
                ProjectionElem::ConstantIndex { offset, min_length, from_end } => J::obj(vec![
                    ("cidx", J::I(offset as i128)),
                    ("min_len", J::I(min_length as i128)),
                    ("from_end", J::B(from_end)),
                ]),
                ProjectionElem::Subslice { from, to, from_end } => J::obj(vec![
                    ("subslice", J::A(vec![J::I(from as i128), J::I(to as i128)])),
                    ("from_end", J::B(from_end)),
                ]),
                ProjectionElem::Downcast(name, vi) => J::obj(vec![
                    ("downcast", J::s(name.map(|s| s.to_string()).unwrap_or_default())),
                    ("vi", J::I(vi.as_u32() as i128)),
                ]),
                ProjectionElem::OpaqueCast(_) => J::s("opaque"),
                ProjectionElem::UnwrapUnsafeBinder(_) => J::s("unwrap_binder"),
            };
            proj.push(j);
            pty = pty.projection_ty(tcx, elem);
        }
        J::obj(vec![
            ("l", J::I(p.local.as_u32() as i128)),
            ("p", J::A(proj)),
            ("ty", J::s(self.cx.ty_str(pty.ty))),
        ])
    }

    fn constant(&self, c: &ConstOperand<'tcx>) -> J {
        let t = c.const_.ty();
        let mut v: Vec<(&'static str, J)> = vec![("ty", J::s(self.cx.ty_str(t)))];
        match t.kind() {
            ty::FnDef(did, args) => {
                v.push(("fn", J::s(self.cx.path(*did))));
                v.push(("fn_args", J::s(self.cx.path_args(*did, args))));
            }
            ty::Int(_) | ty::Uint(_) | ty::Bool | ty::Char => {
                if let Some(si) = c.const_.try_eval_scalar_int(self.cx.tcx, self.env) {
                    v.push(("val", scalar_to_json(si, t)));
                }
            }
            _ => {}
        }
        // unevaluated named constants: keep the def path
        if let Const::Unevaluated(u, _) = c.const_ {
            v.push(("def", J::s(self.cx.path(u.def))));
            if u.promoted.is_some() {
                v.push(("promoted", J::B(true)));
            }
        }
        let disp = ty::print::with_no_visible_paths!(ty::print::with_no_trimmed_paths!(format!("{}", c.const_)));
        if disp.len() < 200 {
            v.push(("s", J::s(disp)));
        }
        J::obj(vec![("const", J::obj(v))])
    }

    fn operand(&self, o: &Operand<'tcx>) -> J {
        match o {
            Operand::Copy(p) => J::obj(vec![("copy", self.place(p))]),
            Operand::Move(p) => J::obj(vec![("move", self.place(p))]),
            Operand::Constant(c) => self.constant(c),
            Operand::RuntimeChecks(rc) => J::obj(vec![("rtcheck", J::s(format!("{:?}", rc)))]),
        }
    }

    fn rvalue(&self, rv: &Rvalue<'tcx>) -> J {
        match rv {
            Rvalue::Use(o, _) => J::obj(vec![("k", J::s("use")), ("a", self.operand(o))]),
            Rvalue::Repeat(o, n) => J::obj(vec![
                ("k", J::s("repeat")),
                ("a", self.operand(o)),
                ("n", match n.try_to_target_usize(self.cx.tcx) { Some(n) => J::I(n as i128), None => J::Null }),
            ]),
            Rvalue::Ref(_, bk, p) => J::obj(vec![
                ("k", J::s("ref")),
                ("mut", J::B(matches!(bk, BorrowKind::Mut { .. }))),
                ("bk", J::s(format!("{:?}", bk))),
                ("place", self.place(p)),
            ]),
            Rvalue::ThreadLocalRef(did) => J::obj(vec![("k", J::s("tls")), ("def", J::s(self.cx.path(*did)))]),
            Rvalue::RawPtr(k, p) => J::obj(vec![
                ("k", J::s("rawptr")),
                ("mut", J::B(matches!(k, RawPtrKind::Mut))),
                ("place", self.place(p)),
            ]),
            Rvalue::Cast(ck, o, t) => J::obj(vec![
                ("k", J::s("cast")),
                ("ck", J::s(format!("{:?}", ck))),
                ("a", self.operand(o)),
                ("from", J::s(self.cx.ty_str(o.ty(&self.body.local_decls, self.cx.tcx)))),
                ("to", J::s(self.cx.ty_str(*t))),
            ]),
            Rvalue::BinaryOp(op, ab) => J::obj(vec![
                ("k", J::s("bin")),
                ("op", J::s(format!("{:?}", op))),
                ("a", self.operand(&ab.0)),
                ("b", self.operand(&ab.1)),
                ("aty", J::s(self.cx.ty_str(ab.0.ty(&self.body.local_decls, self.cx.tcx)))),
            ]),
            Rvalue::UnaryOp(op, a) => J::obj(vec![
                ("k", J::s("un")),
                ("op", J::s(format!("{:?}", op))),
                ("a", self.operand(a)),
                ("aty", J::s(self.cx.ty_str(a.ty(&self.body.local_decls, self.cx.tcx)))),
            ]),
            Rvalue::Discriminant(p) => J::obj(vec![("k", J::s("discr")), ("place", self.place(p))]),
            Rvalue::Aggregate(kind, ops) => {
                let mut v: Vec<(&'static str, J)> = vec![("k", J::s("agg"))];
                match &**kind {
                    AggregateKind::Array(t) => {
                        v.push(("ak", J::s("array")));
                        v.push(("ety", J::s(self.cx.ty_str(*t))));
                    }
                    AggregateKind::Tuple => v.push(("ak", J::s("tuple"))),
                    AggregateKind::Adt(did, vi, _args, _, active) => {
                        v.push(("ak", J::s("adt")));
                        v.push(("adt", J::s(self.cx.path(*did))));
                        let adt = self.cx.tcx.adt_def(*did);
                        let var = adt.variant(*vi);
                        v.push(("variant", J::s(var.name.to_string())));
                        v.push(("vi", J::I(vi.as_u32() as i128)));
                        let names: Vec<J> = match active {
                            Some(f) => vec![J::s(var.fields[*f].name.to_string())],
                            None => var.fields.iter().map(|f| J::s(f.name.to_string())).collect(),
                        };
                        v.push(("fields", J::A(names)));
                    }
                    AggregateKind::Closure(did, _) => {
                        v.push(("ak", J::s("closure")));
                        v.push(("def", J::s(self.cx.path(*did))));
                    }
                    AggregateKind::Coroutine(did, _) | AggregateKind::CoroutineClosure(did, _) => {
                        v.push(("ak", J::s("coroutine")));
                        v.push(("def", J::s(self.cx.path(*did))));
                    }
                    AggregateKind::RawPtr(_, _) => v.push(("ak", J::s("rawptr"))),
                }
                v.push(("ops", J::A(ops.iter().map(|o| self.operand(o)).collect())));
                J::obj(v)
            }
            Rvalue::CopyForDeref(p) => J::obj(vec![("k", J::s("use")), ("a", J::obj(vec![("copy", self.place(p))])), ("cfd", J::B(true))]),
            Rvalue::WrapUnsafeBinder(o, _) => J::obj(vec![("k", J::s("use")), ("a", self.operand(o))]),
        }
    }

    fn callee(&self, func: &Operand<'tcx>) -> J {
        let tcx = self.cx.tcx;
        let fty = func.ty(&self.body.local_decls, tcx);
        match fty.kind() {
            ty::FnDef(did, args) => {
                let mut v: Vec<(&'static str, J)> = vec![
                    ("path", J::s(self.cx.path(*did))),
                    ("full", J::s(self.cx.path_args(*did, args))),
                    ("local", J::B(did.is_local())),
                ];
                let targs: Vec<J> = args.iter().filter_map(|a| a.as_type()).map(|t| J::s(self.cx.ty_str(t))).collect();
                v.push(("targs", J::A(targs)));
                if let Some(tr) = tcx.trait_of_assoc(*did) {
                    v.push(("trait", J::s(self.cx.path(tr))));
                }
                match Instance::try_resolve(tcx, self.env, *did, args) {
                    Ok(Some(inst)) => {
                        let rd = inst.def_id();
                        v.push(("resolved", J::s(self.cx.path(rd))));
                        v.push(("resolved_local", J::B(rd.is_local())));
                        v.push(("inst", J::s(format!("{:?}", std::mem::discriminant(&inst.def)).replace("Discriminant", ""))));
                        let ik = match inst.def {
                            ty::InstanceKind::Item(_) => "item",
                            ty::InstanceKind::Intrinsic(_) => "intrinsic",
                            ty::InstanceKind::Virtual(..) => "virtual",
                            ty::InstanceKind::ClosureOnceShim { .. } => "closure_once_shim",
                            ty::InstanceKind::DropGlue(..) => "drop_glue",
                            ty::InstanceKind::CloneShim(..) => "clone_shim",
                            ty::InstanceKind::FnPtrShim(..) => "fnptr_shim",
                            ty::InstanceKind::ReifyShim(..) => "reify_shim",
                            ty::InstanceKind::VTableShim(..) => "vtable_shim",
                            _ => "other",
                        };
                        v.push(("ik", J::s(ik)));
                    }
                    _ => {
                        v.push(("resolved", J::Null));
                    }
                }
                J::obj(v)
            }
            _ => J::obj(vec![("indirect", self.operand(func)), ("fty", J::s(self.cx.ty_str(fty)))]),
        }
    }

    fn assert_kind(&self, k: &AssertKind<Operand<'tcx>>) -> J {
        match k {
            AssertKind::BoundsCheck { len, index } => J::obj(vec![
                ("k", J::s("BoundsCheck")),
                ("len", self.operand(len)),
                ("index", self.operand(index)),
            ]),
            AssertKind::Overflow(op, a, b) => J::obj(vec![
                ("k", J::s("Overflow")),
                ("op", J::s(format!("{:?}", op))),
                ("a", self.operand(a)),
                ("b", self.operand(b)),
            ]),
            AssertKind::OverflowNeg(a) => J::obj(vec![("k", J::s("OverflowNeg")), ("a", self.operand(a))]),
            AssertKind::DivisionByZero(a) => J::obj(vec![("k", J::s("DivisionByZero")), ("a", self.operand(a))]),
            AssertKind::RemainderByZero(a) => J::obj(vec![("k", J::s("RemainderByZero")), ("a", self.operand(a))]),
            other => J::obj(vec![("k", J::s(format!("{:?}", std::mem::discriminant(other)))), ("other", J::B(true))]),
        }
    }

    fn unwind(&self, u: &UnwindAction) -> J {
        match u {
            UnwindAction::Cleanup(bb) => J::I(bb.as_u32() as i128),
            _ => J::Null,
        }
    }

    fn terminator(&self, t: &Terminator<'tcx>) -> J {
        let line = self.cx.line(t.source_info.span);
        let mut v: Vec<(&'static str, J)> = Vec::new();
        match &t.kind {
            TerminatorKind::Goto { target } => {
                v.push(("k", J::s("goto")));
                v.push(("t", J::I(target.as_u32() as i128)));
            }
            TerminatorKind::SwitchInt { discr, targets } => {
                v.push(("k", J::s("switch")));
                v.push(("discr", self.operand(discr)));
                v.push(("dty", J::s(self.cx.ty_str(discr.ty(&self.body.local_decls, self.cx.tcx)))));
                let mut ts = Vec::new();
                let dty = discr.ty(&self.body.local_decls, self.cx.tcx);
                for (val, bb) in targets.iter() {
                    // sign-interpret
                    let jv = if dty.is_signed() {
                        let bits = match dty.kind() {
                            ty::Int(it) => it.bit_width().unwrap_or(64),
                            _ => 128,
                        };
                        let sz = rustc_abi::Size::from_bits(bits);
                        J::I(sz.sign_extend(val) as i128)
                    } else if val > i128::MAX as u128 {
                        J::S(val.to_string())
                    } else {
                        J::I(val as i128)
                    };
                    ts.push(J::A(vec![jv, J::I(bb.as_u32() as i128)]));
                }
                v.push(("targets", J::A(ts)));
                v.push(("otherwise", J::I(targets.otherwise().as_u32() as i128)));
            }
            TerminatorKind::UnwindResume => v.push(("k", J::s("resume"))),
            TerminatorKind::UnwindTerminate(_) => v.push(("k", J::s("terminate"))),
            TerminatorKind::Return => v.push(("k", J::s("return"))),
            TerminatorKind::Unreachable => v.push(("k", J::s("unreachable"))),
            TerminatorKind::Drop { place, target, unwind, .. } => {
                v.push(("k", J::s("drop")));
                v.push(("place", self.place(place)));
                v.push(("t", J::I(target.as_u32() as i128)));
                v.push(("unwind", self.unwind(unwind)));
            }
            TerminatorKind::Call { func, args, destination, target, unwind, .. } => {
                v.push(("k", J::s("call")));
                v.push(("callee", self.callee(func)));
                v.push(("args", J::A(args.iter().map(|a| self.operand(&a.node)).collect())));
                v.push(("dest", self.place(destination)));
                v.push(("t", match target { Some(bb) => J::I(bb.as_u32() as i128), None => J::Null }));
                v.push(("unwind", self.unwind(unwind)));
            }
            TerminatorKind::TailCall { func, args, .. } => {
                v.push(("k", J::s("tailcall")));
                v.push(("callee", self.callee(func)));
                v.push(("args", J::A(args.iter().map(|a| self.operand(&a.node)).collect())));
            }
            TerminatorKind::Assert { cond, expected, msg, target, unwind } => {
                v.push(("k", J::s("assert")));
                v.push(("cond", self.operand(cond)));
                v.push(("expected", J::B(*expected)));
                v.push(("msg", self.assert_kind(msg)));
                v.push(("t", J::I(target.as_u32() as i128)));
                v.push(("unwind", self.unwind(unwind)));
            }
            TerminatorKind::FalseEdge { real_target, .. } => {
                v.push(("k", J::s("goto")));
                v.push(("t", J::I(real_target.as_u32() as i128)));
            }
            TerminatorKind::FalseUnwind { real_target, .. } => {
                v.push(("k", J::s("goto")));
                v.push(("t", J::I(real_target.as_u32() as i128)));
            }
            TerminatorKind::Yield { .. } => v.push(("k", J::s("yield"))),
            TerminatorKind::CoroutineDrop => v.push(("k", J::s("coroutine_drop"))),
            TerminatorKind::InlineAsm { .. } => v.push(("k", J::s("asm"))),
        }
        v.push(("line", J::I(line)));
        if let Some(e) = self.cx.expn_inner(t.source_info.span) {
            v.push(("exp", J::s(e)));
        }
        J::obj(v)
    }

    fn statement(&self, s: &Statement<'tcx>) -> Option<J> {
        let line = self.cx.line(s.source_info.span);
        match &s.kind {
            StatementKind::Assign(b) => {
                let (p, rv) = &**b;
                let mut v = vec![
                    ("k", J::s("assign")),
                    ("place", self.place(p)),
                    ("rv", self.rvalue(rv)),
                    ("line", J::I(line)),
                ];
                if let Some(e) = self.cx.expn_inner(s.source_info.span) {
                    v.push(("exp", J::s(e)));
                }
                Some(J::obj(v))
            }
            StatementKind::SetDiscriminant { place, variant_index } => Some(J::obj(vec![
                ("k", J::s("setdiscr")),
                ("place", self.place(place)),
                ("vi", J::I(variant_index.as_u32() as i128)),
                ("line", J::I(line)),
            ])),
            StatementKind::Intrinsic(i) => Some(J::obj(vec![
                ("k", J::s("intrinsic")),
                ("what", J::s(match &**i { NonDivergingIntrinsic::Assume(_) => "assume", NonDivergingIntrinsic::CopyNonOverlapping(_) => "copy_nonoverlapping" })),
                ("line", J::I(line)),
            ])),
            _ => None,
        }
    }
}

pub fn dump_body<'tcx>(cx: &Cx<'tcx>, ldid: LocalDefId) -> J {
    let tcx = cx.tcx;
    let did = ldid.to_def_id();
    if !tcx.is_mir_available(did) {
        return J::Null;
    }
    let body = tcx.optimized_mir(did);
    let env = TypingEnv::post_analysis(tcx, did);
    let b = B { cx, body, env };
    // locals
    let mut names: Vec<Option<String>> = vec![None; body.local_decls.len()];
    let mut dbg = Vec::new();
    for vdi in body.var_debug_info.iter() {
        match &vdi.value {
            VarDebugInfoContents::Place(p) => {
                if p.projection.is_empty() {
                    names[p.local.as_usize()] = Some(vdi.name.to_string());
                }
                dbg.push(J::obj(vec![("name", J::s(vdi.name.to_string())), ("place", b.place(p))]));
            }
            VarDebugInfoContents::Const(c) => {
                dbg.push(J::obj(vec![("name", J::s(vdi.name.to_string())), ("const", b.constant(c))]));
            }
        }
    }
    let mut locals = Vec::new();
    for (l, decl) in body.local_decls.iter_enumerated() {
        let mut v = vec![("ty", J::s(cx.ty_str(decl.ty)))];
        if let Some(n) = &names[l.as_usize()] {
            v.push(("name", J::s(n.clone())));
        }
        if decl.mutability.is_mut() {
            v.push(("mut", J::B(true)));
        }
        locals.push(J::obj(v));
    }
    let mut blocks = Vec::new();
    for (_bb, data) in body.basic_blocks.iter_enumerated() {
        let mut stmts = Vec::new();
        for s in data.statements.iter() {
            if let Some(j) = b.statement(s) {
                stmts.push(j);
            }
        }
        let mut v = vec![("s", J::A(stmts)), ("t", b.terminator(data.terminator()))];
        if data.is_cleanup {
            v.push(("cleanup", J::B(true)));
        }
        blocks.push(J::obj(v));
    }
    J::obj(vec![
        ("argc", J::I(body.arg_count as i128)),
        ("locals", J::A(locals)),
        ("dbg", J::A(dbg)),
        ("blocks", J::A(blocks)),
    ])
}
