#!/usr/bin/env python3
"""Regenerates MANIFEST.json from the table below (kept as code so that it stays valid)."""
import json, os
HERE = os.path.dirname(os.path.abspath(__file__))

CHECKS = {}
NA = {}

def check(pid, category, text, note, technique, design_ref, thorough=True):
    CHECKS[pid] = {
        "property_id": pid,
        "quick_cmd": "./check %s --tier quick" % pid,
        "thorough_cmd": "./check %s --tier thorough" % pid,
        "evidence_file": "evidence/%s.json" % pid,
        "replay_cmd_template": "./check %s --replay {path}" % pid,
        "engine": "mp4facts+rules",
        "level_claimed": {"category": category, "text": text, "design_ref": design_ref},
        "level_note": note,
        "technique": technique,
    }

exec(open(os.path.join(HERE, "manifest_table.py")).read())

ALL = ["C%02d" % i for i in range(1, 19)]
doc = {
    "version": 1,
    "setup_cmd": "cd engine/mp4facts && CARGO_NET_OFFLINE=true cargo build --release --offline",
    "hooks": {
        "guard": "none (no source hooks: every check reads /repo through the compiler, nothing is instrumented)",
        "enable": "n/a - checks run `cargo +nightly check --offline --lib` on /repo's working tree with RUSTC_WORKSPACE_WRAPPER=engine/mp4facts",
        "baseline_off_cmd": "cd /repo && cargo test --workspace --no-fail-fast --offline",
        "source_commits": [],
        "add_only": True,
    },
    "engines": [
        {"name": "mp4facts", "path": "engine/mp4facts", "serves_properties": sorted(CHECKS),
         "kind_free_text": "rustc_private driver (nightly): dumps items, ADTs, consts, MIR with resolved callees and Assert kinds, and a typeck-annotated HIR tree of the current /repo tree as JSON facts"},
        {"name": "rules", "path": "rules", "serves_properties": sorted(CHECKS),
         "kind_free_text": "python rule packs over the facts: call graph, dominators/post-dominators, loop inventory, interval abstract interpretation, dependence slices, layout and table extraction"},
    ],
    "checks": [CHECKS[k] for k in ALL if k in CHECKS],
    "not_applicable": [{"property_id": k, "reason": NA.get(k, "check under construction in this round; no verdict is claimed yet (DESIGN.md section 7)")} for k in ALL if k not in CHECKS],
    "notes": "Static analysis only: no check executes mp4-rust code. Facts are rebuilt whenever /repo's tree hash changes. Known genuine defects are listed in known_findings.jsonl (see DESIGN.md section 6).",
}
json.dump(doc, open(os.path.join(HERE, "MANIFEST.json"), "w"), indent=1)
print("MANIFEST.json: %d checks, %d not applicable" % (len(doc["checks"]), len(doc["not_applicable"])))
