use mp4::*;
use std::convert::TryFrom;
use std::io::Cursor;
use std::panic::{catch_unwind, AssertUnwindSafe};

fn ftyp() -> Vec<u8> { let mut f = Vec::new(); FtypBox{major_brand: str::parse("isom").unwrap(), minor_version:0, compatible_brands: vec![]}.write_box(&mut f).unwrap(); f }

fn trak(mut edit: impl FnMut(&mut TrakBox)) -> TrakBox {
    let mut t = TrakBox::default();
    t.tkhd.track_id = 1;
    t.mdia.minf.stbl.stts.entries = vec![Default::default()]; t.mdia.minf.stbl.stts.entries[0].sample_count = 1; t.mdia.minf.stbl.stts.entries[0].sample_delta = 1;
    t.mdia.minf.stbl.stsc.entries = vec![Default::default()]; { let e = &mut t.mdia.minf.stbl.stsc.entries[0]; e.first_chunk = 1; e.samples_per_chunk = 1; e.sample_description_index = 1; e.first_sample = 1; }
    t.mdia.minf.stbl.stsz.sample_size = 0; t.mdia.minf.stbl.stsz.sample_count = 1; t.mdia.minf.stbl.stsz.sample_sizes = vec![0];
    t.mdia.minf.stbl.stco = Some(StcoBox{version:0, flags:0, entries: vec![0]}); t.mdia.minf.stbl.stsd.tx3g = Some(Tx3gBox::default());
    edit(&mut t); t
}
fn file(moov: &MoovBox, extra: &[u8]) -> Vec<u8> { let mut f = ftyp(); moov.write_box(&mut f).unwrap(); f.extend_from_slice(extra); f }
fn open(f: Vec<u8>) -> Mp4Reader<Cursor<Vec<u8>>> { let n = f.len() as u64; Mp4Reader::read_header(Cursor::new(f), n).expect("open") }
fn case(name: &str, f: impl FnOnce() -> String) {
    let r = catch_unwind(AssertUnwindSafe(f));
    match r { Ok(s) => println!("{name}: no panic -> {s}"), Err(e) => { let m = e.downcast_ref::<String>().cloned().or(e.downcast_ref::<&str>().map(|s| s.to_string())).unwrap_or_default(); println!("{name}: PANIC {m}"); } }
}
fn boxed(ty: &[u8;4], payload: &[u8]) -> Vec<u8> { let mut v = ((payload.len()+8) as u32).to_be_bytes().to_vec(); v.extend(ty); v.extend(payload); v }

fn main() {
    std::panic::set_hook(Box::new(|_| {}));
    case("mvhd timescale 0 -> Mp4Reader::duration", || { let mut m = MoovBox::default(); m.mvhd.timescale = 0; let r = open(file(&m, &[])); format!("{:?}", r.duration()) });
    case("mdhd timescale 0 -> Mp4Track::duration", || { let mut m = MoovBox::default(); m.traks.push(trak(|t| t.mdia.mdhd.timescale = 0)); let r = open(file(&m, &[])); format!("{:?}", r.tracks()[&1].duration()) });
    case("stsc samples_per_chunk 0 -> read_sample", || { let mut m = MoovBox::default(); m.traks.push(trak(|t| t.mdia.minf.stbl.stsc.entries[0].samples_per_chunk = 0)); let mut r = open(file(&m, &[])); format!("{:?}", r.read_sample(1,1).map(|_| ())) });
    case("stsc first_chunk 0 -> chunk_id-1", || { let mut m = MoovBox::default(); m.traks.push(trak(|t| t.mdia.minf.stbl.stsc.entries[0].first_chunk = 0)); let mut r = open(file(&m, &[])); format!("{:?}", r.read_sample(1,1).map(|_| ())) });
    case("empty stts -> sample_time unwrap", || { let mut m = MoovBox::default(); m.traks.push(trak(|t| t.mdia.minf.stbl.stts.entries.clear())); let mut r = open(file(&m, &[])); format!("{:?}", r.read_sample(1,1).map(|_| ())) });
    case("sample sizes u32 sum overflow in chunk", || { let mut m = MoovBox::default(); m.traks.push(trak(|t| { t.mdia.minf.stbl.stsc.entries[0].samples_per_chunk = 3; t.mdia.minf.stbl.stsz.sample_count = 3; t.mdia.minf.stbl.stsz.sample_sizes = vec![0x8000_0000, 0x8000_0000, 0]; t.mdia.minf.stbl.stts.entries[0].sample_count = 3; })); let mut r = open(file(&m, &[])); format!("{:?}", r.read_sample(1,3).map(|_| ())) });
    // fragmented
    let frag = |counts: &[u32], flags: u32| -> Vec<u8> { let mut out = Vec::new(); for &c in counts { let mut moof = MoofBox::default(); let mut traf = TrafBox::default(); traf.tfhd.track_id = 1; traf.trun = Some(TrunBox{version:0, flags, sample_count:c, data_offset:None, first_sample_flags:None, sample_durations: vec![], sample_sizes: if flags & 0x200 != 0 { vec![0; c as usize] } else { vec![] }, sample_flags: vec![], sample_cts: vec![]}); moof.trafs.push(traf);
        // write moof manually because write_box checks sample_sizes len
        let mut b = Vec::new(); let tr = moof.trafs[0].trun.as_ref().unwrap(); let mut trun = Vec::new(); trun.extend([0u8, (flags>>16) as u8, (flags>>8) as u8, flags as u8]); trun.extend(c.to_be_bytes()); for s in &tr.sample_sizes { trun.extend(s.to_be_bytes()); }
        let mut tfhd = Vec::new(); tfhd.extend([0u8,0,0,0]); tfhd.extend(1u32.to_be_bytes());
        let mut trafb = boxed(b"tfhd", &tfhd); trafb.extend(boxed(b"trun", &trun));
        let mut mfhd = Vec::new(); mfhd.extend([0u8,0,0,0]); mfhd.extend(1u32.to_be_bytes());
        let mut moofb = boxed(b"mfhd", &mfhd); moofb.extend(boxed(b"traf", &trafb)); b.extend(boxed(b"moof", &moofb)); out.extend(b); } out };
    case("fragmented read_sample(1,0) -> sample_id-1", || { let mut m = MoovBox::default(); m.traks.push(trak(|_| {})); let mut r = open(file(&m, &frag(&[1], 0x200))); format!("{:?}", r.read_sample(1,0).map(|_| ())) });
    case("trun counts overflow -> sample_count expect", || { let mut m = MoovBox::default(); m.traks.push(trak(|_| {})); let r = open(file(&m, &frag(&[0x8000_0000, 0x8000_0000], 0))); format!("{:?}", r.sample_count(1)) });
    case("fewer samples than fragments -> is_sync % 0", || { let mut m = MoovBox::default(); m.traks.push(trak(|_| {})); let mut r = open(file(&m, &frag(&[2, 0, 0], 0x200))); format!("{:?}", r.read_sample(1,2).map(|_| ())) });
    // emsg underflow at top level: version 0, strings "a\0" "b\0" + 16 bytes, declared size 16
    case("emsg size smaller than its strings", || { let mut p = vec![0u8,0,0,0]; p.extend(b"aaaaaaaaaaaaaaaaaaaa\0b\0"); p.extend([0u8;16]); let mut e = boxed(b"emsg", &p); e[0..4].copy_from_slice(&20u32.to_be_bytes()); let m = MoovBox::default(); let f = file(&m, &e); let n = f.len() as u64; format!("{:?}", Mp4Reader::read_header(Cursor::new(f), n).map(|_| ())) });
    // data box too small inside ilst item inside meta(mdir) inside udta
    let meta_file = |ilst_children: Vec<u8>| -> Vec<u8> { let mut hd = Vec::new(); HdlrBox{version:0, flags:0, handler_type: str::parse("mdir").unwrap(), name: String::new()}.write_box(&mut hd).unwrap(); let mut metap = vec![0u8,0,0,0]; metap.extend(hd); metap.extend(boxed(b"ilst", &ilst_children)); let udta = boxed(b"udta", &boxed(b"meta", &metap)); let mut mv = Vec::new(); MvhdBox::default().write_box(&mut mv).unwrap(); mv.extend(udta); let mut f = ftyp(); f.extend(boxed(b"moov", &mv)); f.extend([0u8;64]); f };
    case("ilst item with 12-byte data box", || { let item = boxed(&[0xa9, b'n', b'a', b'm'], &boxed(b"data", &[0,0,0,1])); let f = meta_file(item); let n = f.len() as u64; format!("{:?}", Mp4Reader::read_header(Cursor::new(f), n).map(|_| ())) });
    case("meta(unknown hdlr) child with size 4", || { let mut hd = Vec::new(); HdlrBox{version:0, flags:0, handler_type: str::parse("abcd").unwrap(), name: String::new()}.write_box(&mut hd).unwrap(); let mut metap = vec![0u8,0,0,0]; metap.extend(hd); metap.extend([0u8,0,0,4, b'x', b'x', b'x', b'x']); let udta = boxed(b"udta", &boxed(b"meta", &metap)); let mut mv = Vec::new(); MvhdBox::default().write_box(&mut mv).unwrap(); mv.extend(udta); let mut f = ftyp(); f.extend(boxed(b"moov", &mv)); f.extend([0u8;64]); let n = f.len() as u64; format!("{:?}", Mp4Reader::read_header(Cursor::new(f), n).map(|_| ())) });
    // determinism of JSON rendering: same bytes opened twice
    case("ilst to_json order across two opens", || { let data = |b: &[u8]| { let mut p = vec![0u8,0,0,1, 0,0,0,0]; p.extend(b); boxed(b"data", &p) }; let mut items = boxed(&[0xa9, b'n', b'a', b'm'], &data(b"t")); items.extend(boxed(&[0xa9, b'd', b'a', b'y'], &data(b"2020"))); items.extend(boxed(b"covr", &data(b"p"))); items.extend(boxed(b"desc", &data(b"s"))); let f = meta_file(items); let mut seen = std::collections::HashSet::new(); for _ in 0..16 { let r = open(f.clone()); let j = match r.moov.udta.as_ref().unwrap().meta.as_ref().unwrap() { MetaBox::Mdir{ilst} => ilst.as_ref().unwrap().to_json().unwrap(), _ => String::new() }; seen.insert(j); } format!("{} distinct JSON renderings in 16 opens", seen.len()) });
    // mappings
    case("AvcProfile (66, 0x40)", || format!("{:?}", AvcProfile::try_from((66u8, 0x40u8))));
    case("FourCC ©nam text round trip", || { let c = FourCC::from(0xA96E616Du32); format!("{:?}", c.to_string().parse::<FourCC>().map(|d| d == c)) });
    case("hvcC round trip (via hev1)", || { let mut b = Hev1Box::default(); b.hvcc.configuration_version = 1; b.hvcc.general_profile_space = 2; b.hvcc.general_tier_flag = true; b.hvcc.general_profile_idc = 1; b.hvcc.constant_frame_rate = 1; b.hvcc.num_temporal_layers = 3; b.hvcc.temporal_id_nested = true; let mut buf = Vec::new(); b.write_box(&mut buf).unwrap(); let mut c = Cursor::new(&buf); let h = BoxHeader::read(&mut c).unwrap(); let d = Hev1Box::read_box(&mut c, h.size).unwrap().hvcc; format!("eq={} space={} tier={} cfr={} ntl={} nested={}", b.hvcc==d, d.general_profile_space, d.general_tier_flag, d.constant_frame_rate, d.num_temporal_layers, d.temporal_id_nested) });
    // muxer
    let cfg = Mp4Config{ major_brand: str::parse("isom").unwrap(), minor_version:0, compatible_brands: vec![], timescale: 1000 };
    case("add_track with 2-byte SPS", || { let mut w = Mp4Writer::write_start(Cursor::new(Vec::new()), &cfg).unwrap(); format!("{:?}", w.add_track(&TrackConfig::from(AvcConfig{width:1,height:1,seq_param_set: vec![1,2], pic_param_set: vec![]}))) });
    case("track timescale 0 -> write_sample", || { let mut w = Mp4Writer::write_start(Cursor::new(Vec::new()), &cfg).unwrap(); let mut tc = TrackConfig::from(TtxtConfig{}); tc.timescale = 0; w.add_track(&tc).unwrap(); format!("{:?}", w.write_sample(1, &Mp4Sample{start_time:0, duration:1, rendering_offset:0, is_sync:true, bytes: Bytes::from_static(b"x")})) });
    case("chunk_duration u32 overflow", || { let mut w = Mp4Writer::write_start(Cursor::new(Vec::new()), &cfg).unwrap(); let mut tc = TrackConfig::from(TtxtConfig{}); tc.timescale = u32::MAX; w.add_track(&tc).unwrap(); let s = |d| Mp4Sample{start_time:0, duration:d, rendering_offset:0, is_sync:true, bytes: Bytes::from_static(b"x")}; w.write_sample(1, &s(u32::MAX-1)).unwrap(); format!("{:?}", w.write_sample(1, &s(5))) });
    case("AAC sample of 16 MiB -> write_end (u24 buffer_size_db)", || { let mut w = Mp4Writer::write_start(Cursor::new(Vec::new()), &cfg).unwrap(); w.add_track(&TrackConfig::from(AacConfig::default())).unwrap(); w.write_sample(1, &Mp4Sample{start_time:0, duration:1, rendering_offset:0, is_sync:true, bytes: Bytes::from(vec![0u8; 1<<24])}).unwrap(); format!("{:?}", w.write_end()) });
    case("AAC object type 42 survives?", || { let mut w = Mp4Writer::write_start(Cursor::new(Vec::new()), &cfg).unwrap(); w.add_track(&TrackConfig::from(AacConfig{profile: AudioObjectType::UnifiedSpeechAudioCoding, ..Default::default()})).unwrap(); w.write_end().unwrap(); let v = w.into_writer().into_inner(); let r = open(v); format!("{:?}", r.tracks()[&1].audio_profile()) });
}
