check("C10", "proof",
      "Every I/O-fallible call expression in the crate (986 today) is shown to propagate its error (operand of `?`, returned, or matched with all Err arms returning Err); every io-fallible function returns Result; no partial-transfer primitive is called anywhere (all 587 stream call sites are read_exact/write_all/seek/byteorder methods); From<io::Error> builds Error::IoError. These are per-site obligations, so they cover every fault index and every chunking of transfers, which fault-injection tests can only sample.",
      "Trusted: rustc's HIR/MIR; documented semantics of read_exact/write_all (retry on Interrupted, error on short transfer) and that byteorder's methods call only those. Not decided: user Read/Write impls; panics under faults are C06/C17's obligations.",
      "call-site error-discipline rule over type-checked HIR + who-may-call rule over resolved MIR callees",
      "DESIGN.md section 4 C10")
