#!/usr/bin/env python3
"""Maintenance tool (run by hand on the reference tree, never by a check): records, for every accepted-invariant entry of
C06/C17, the canonical keys of the obligations it matches today (rules/packs/accepted_ckeys.json), and adds the canonical
key of every `known` finding of the panic engines to known_findings.jsonl.  Both let an entry keep matching after a
behaviour-preserving rewrite of the operands (renamed local, extra temporary, `u64::from(x)` for `x as u64`)."""
import json, os, sys
HERE = os.path.dirname(os.path.abspath(__file__))
sys.path.insert(0, os.path.join(HERE, "rules")); sys.path.insert(0, os.path.join(HERE, "rules", "packs"))
os.environ.setdefault("VERIF_OUT", "/tmp/verif-tools-out")
import facts, report, panicfree, c06, c17

fx = facts.load()
out = {}
ck_of = {}
for pid, mod in (("C06", c06), ("C17", c17)):
    # first pass without recorded ckeys so that only the key matchers decide
    if os.path.exists(panicfree.ACCEPTED_CKEYS):
        os.rename(panicfree.ACCEPTED_CKEYS, panicfree.ACCEPTED_CKEYS + ".bak")
    chk = report.Check(pid); chk.finish = lambda *a, **k: 0
    mod.run(fx, chk, "quick")
    out[pid] = {k: sorted(set(v)) for k, v in chk.engine.accepted_hits.items()}
    for v in chk.violations:
        d = v.get("detail") or {}
        if isinstance(d, dict) and d.get("ckey"):
            ck_of[(pid, v["key"])] = v["key"].split("|")[0] + "|" + d["ckey"]
    if os.path.exists(panicfree.ACCEPTED_CKEYS + ".bak"):
        os.rename(panicfree.ACCEPTED_CKEYS + ".bak", panicfree.ACCEPTED_CKEYS)
json.dump(out, open(panicfree.ACCEPTED_CKEYS, "w"), indent=1, sort_keys=True)
print("accepted entries with recorded canonical keys:", {k: len(v) for k, v in out.items()})
# other packs whose violations carry a canonical key
import c08
for pid, mod in (("C08", c08),):
    chk = report.Check(pid); chk.finish = lambda *a, **k: 0
    mod.run(fx, chk, "quick")
    for v in chk.violations:
        d = v.get("detail") or {}
        if isinstance(d, dict) and d.get("ckey"):
            ck_of[(pid, v["key"])] = v["key"].split("|")[0] + "|" + d["ckey"]
# known findings
lines = []
n = 0
for line in open(report.KNOWN):
    if not line.strip() or line.startswith("#"):
        lines.append(line); continue
    rec = json.loads(line)
    ck = ck_of.get((rec["property"], rec["key"]))
    if rec.get("status") == "known" and ck:
        rec["ckey"] = ck; n += 1
    lines.append(json.dumps(rec) + "\n")
open(report.KNOWN, "w").writelines(lines)
print("known findings with canonical keys:", n)
