import sys; sys.path.insert(0,'/verif/rules')
import facts, hirq, callgraph, mir
from collections import Counter
fx=facts.load()
cg=callgraph.callgraph(fx)
IO_TRAITS=('std::io::Read','std::io::Write','std::io::Seek','byteorder::ReadBytesExt','byteorder::WriteBytesExt','std::io::BufRead')
# direct io users
direct=set()
for fid,sites in cg.sites.items():
    for b,t,p,loc in sites:
        c=t['callee']
        if c.get('trait') in IO_TRAITS:
            direct.add(fid)
print(len(direct))
# transitive
iof=set(direct)
ch=True
while ch:
    ch=False
    for f,es in cg.edges.items():
        if f not in iof and es & iof:
            iof.add(f); ch=True
print(len(iof))
ctx=Counter()
ex={}
for fid,fn in fx.fns.items():
    if fn.get('derived'): continue
    root=hirq.body_root(fn)
    if root is None: continue
    for n,ps in hirq.walk(root):
        if n.get('k') not in ('call','mcall'): continue
        d,r=hirq.callee_of(n)
        tr=n.get('trait')
        isio = (tr in IO_TRAITS) or ((r or d) in iof)
        if not isio: continue
        ty=n.get('ty','')
        if not ty.startswith('std::result::Result<'): 
            ctx[('nonresult',ty[:30])]+=1; continue
        par=ps[-1] if ps else None
        pk=par.get('k') if par else None
        key=(pk, par.get('m') if pk=='mcall' else None)
        ctx[key]+=1
        ex.setdefault(key,[]).append((fid,n.get('line'),hirq.expr_str(n)[:80]))
for k,v in ctx.most_common(): print(k,v, ex.get(k,[])[:3])
print([f for f in iof if fx.fns[f]['kind']=='Closure'])
print([ (f,fx.fns[f].get('output_s')) for f in iof if not (fx.fns[f].get('output_s') or '').startswith('std::result::Result')])
# all external callee paths used anywhere with io traits
c=Counter()
for fid,sites in cg.sites.items():
    for b,t,p,loc in sites:
        if t['callee'].get('trait') in IO_TRAITS: c[t['callee']['path']]+=1
print(c)
